import sys, time
sys.path.insert(0, '/verif')
from pyvc.contracts import Registry, Verifier
from pyvc import solve
reg = Registry(sys.argv[1:] or ["contracts.number"])
v = Verifier(reg)
t0=time.time()
allob=[]; covers=[]
for q, con in reg.contracts.items():
    if con.trusted: continue
    ex = v.verify_function(con)
    print(q, 'paths', ex.paths, 'obls', len(ex.order))
    allob += ex.order; covers += ex.covers
for q in reg.lemmas:
    ex = v.verify_lemma(q)
    print(q, 'paths', ex.paths, 'obls', len(ex.order))
    allob += ex.order; covers += ex.covers
print('gen', time.time()-t0)
res, cov = solve.discharge(allob, reg.axioms, covers=covers)
bad=0
for ob, r in zip(allob, res):
    if r['status']!='unsat':
        bad+=1
        print(ob.name, r['status'], r['backend'], round(r['time'],2), ob.info, r['extra'] if r['status']=='sat' else '')
print(len(allob), 'obligations', bad, 'not discharged', 'time', round(time.time()-t0,2), 'max', max(r['time'] for r in res))
from collections import Counter
print(Counter(cov))
