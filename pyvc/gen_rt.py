"""C01 by deduction, per program, for the classes whose wire image has a statically known piece
structure: RT_T  ==  VALID_T(obj) and obj in the round-trip domain  ==>  deserialize(WIRE_T(obj)) is
field-by-field obj, consumes every byte, byte_size == len.

data := the interpreted bytes of WIRE_T(obj) for a symbolic in-domain object (C02 proves the emitted
serialize produces exactly WIRE_T).  The emitted deserialize - nested and case classes inlined - is
executed over a concrete-structured reader: data is a z3 sequence, position / chunk start are
integers, the offsets of the 0xFF break bytes are known terms (in-domain objects contain no other
0xFF inside or ahead of a chunked section), so `remaining` and `next_chunk` are arithmetic.  The reader
operations are the C05 contracts; string codecs enter as ground instances of the proved C04 / C08
lemmas (cut-padding of b ++ pad is b; decode_string(encode_string(x)) is x off 0x7E; the cp1252 image).

Outside this fragment (reported, decided by the bounded stand-in): arrays whose element count is not a
literal (length fields, read-to-end), and everything xmlsem.c01_domain excludes."""
import ast
import z3

from . import repo
from .exec import (Frame, Unsupported, PathEnd, PyExc, ReturnSig, Ref, ObjV, NONE, I, INT, BOOL, is_int, is_bool, simp,
                   concrete_int)
from .gen import ZSeq, MaybeV, ObjSym, EmptyList, BYTES, EMPTY, READER_Q
from xmlsem import ir as X
from xmlsem import wellformed as W

DSTR = z3.Function("DSTR", BYTES, BYTES)          # cp1252 image of a byte string (code points)
CUT = z3.Function("CUTPAD", BYTES, BYTES)         # bytes up to the first 0xFF
DS = z3.Function("DECODE_STRING", BYTES, BYTES)   # string_encoding_utils.decode_string
ES = z3.Function("ENCODE_STRING", BYTES, BYTES)   # string_encoding_utils.encode_string
DECF = z3.Function("DEC", BYTES, INT)             # decode_number (positional formula)
ENCF = z3.Function("ENC", INT, INT, BYTES)        # first k bytes of encode_number(v)


class PyList:
    def __init__(self):
        self.items = []


class AbsList:
    """a list of symbolically many elements whose leaves at index j are A_leaf(j) (round-trip mode)"""
    def __init__(self, info, count):
        self.info = info
        self.count = count


def leaf_value(ex, x, path):
    """value of the leaf `path` ('' for a plain element, 'a.b' inside structs) of a deserialized element"""
    if path == "":
        return x
    cur = x
    for part in path.split("."):
        o = ex.obj(cur)
        if o is None:
            return None
        cur = o.fields.get("_" + part)
    return cur


def encb(v, j):
    if j == 0:
        return v % 253 + 1
    lim = 253 ** j
    return z3.If(v < lim, I(0xFE), (v / lim) % 253 + 1)


def is_str_type(t):
    return t.split(":")[0] in ("string", "encoded_string")


class RTReader:
    """the operations of EoReader over (data, pos, mode, chunk start, break offsets)"""

    def __init__(self, ex, data, breaks, mode, total):
        self.ex = ex
        self.data = data
        self.breaks = breaks          # ascending offsets of every 0xFF that can end a chunk
        self.pos = I(0)
        self.cs = I(0)
        self.mode = z3.BoolVal(mode)
        self.n = total                # the sum of the piece lengths (a constant for fixed-size classes)

    def nb(self):
        r = self.n
        for off in reversed(self.breaks):
            r = z3.If(off >= self.cs, off, r)
        return r

    def rem(self):
        nb = self.nb()
        chunked = nb - z3.If(self.pos < nb, self.pos, nb)
        return simp(z3.If(self.mode, chunked, self.n - self.pos))

    def take(self, k):
        r = self.rem()
        return simp(z3.If(k < r, k, r))

    def read(self, k):
        t = self.take(k)
        t = z3.If(t < 0, I(0), t)
        b = z3.Extract(self.data, self.pos, t)
        self.pos = simp(self.pos + t)
        return b, t

    def call(self, name, args, node):
        ex = self.ex
        width = {"get_byte": 0, "get_char": 1, "get_short": 2, "get_three": 3, "get_int": 4}
        if name in width:
            w = width[name]
            pos0 = self.pos
            if w == 0:
                r = self.rem()
                val = z3.If(r > 0, self.data[pos0], I(0))
                self.pos = simp(pos0 + z3.If(r > 0, I(1), I(0)))
                return simp(val)
            b, t = self.read(I(w))
            return DECF(b)
        if name in ("get_string", "get_encoded_string"):
            b, _ = self.read(self.rem())
            if name == "get_encoded_string":
                b = DS(b)
            return ZSeq(DSTR(b), "int")
        if name in ("get_fixed_string", "get_fixed_encoded_string"):
            n = ex.as_int(args[0])
            padded = simp(ex.truth(args[1])) if len(args) > 1 else z3.BoolVal(False)
            if ex.branch(n < 0):
                raise PyExc("ValueError", node)
            b, _ = self.read(n)
            if name == "get_fixed_encoded_string":
                b = DS(b)
            if z3.is_true(padded):
                b = CUT(b)
            elif not z3.is_false(padded):
                raise Unsupported("symbolic padded flag")
            return ZSeq(DSTR(b), "int")
        if name == "get_bytes":
            n = ex.as_int(args[0])
            b, _ = self.read(n)
            return ZSeq(b, "int", mutable=True)
        if name == "next_chunk":
            ex.oblige("roundtrip", self.mode, f"next_chunk@L{node.lineno}",
                      {"why": "next_chunk outside chunked mode while reading back a valid object", "property": "C01"})
            nb = self.nb()
            self.pos = simp(z3.If(nb < self.n, nb + 1, nb))
            self.cs = self.pos
            return NONE
        raise Unsupported(f"reader method {name} in round-trip mode")


class Builder:
    """interpreted WIRE_T(obj) of a symbolic in-domain object, as a list of pieces"""

    def __init__(self, pv, ex):
        self.pv = pv
        self.ex = ex
        self.spec = pv.spec
        self.pieces = []       # (seq term, length term, is_break)
        self.count = 0
        self.offset = I(0)     # running sum of the piece lengths
        self.sym = {}          # (class name, array name) -> info of an array with a symbolic element count

    def fresh_bytes(self, base):
        self.count += 1
        return self.ex.fresh(f"{base}#{self.count}", BYTES)

    def emit(self, term, length, is_break=False):
        self.pieces.append((term, length, is_break))
        self.offset = simp(self.offset + length)

    def fixed_layout(self, tref, prefix="", off=0, depth=0):
        """[(leaf path, leaf type, offset, width)] and total size of a fixed-size element type made of
        ints / bools / enums / hard-coded ints / nested such structs; None otherwise"""
        if tref.kind in ("int", "enum", "bool"):
            w = tref.width
            return [(prefix.rstrip("."), tref, off, w)], w
        if tref.kind != "struct" or depth > 3:
            return None
        out = []
        size = 0
        for ins in tref.struct.body:
            if ins.tag != "field" or ins.optional:
                return None
            t = X.resolve_type(self.spec, ins.type, ins.length if is_str_type(ins.type) else None)
            if ins.value is not None:
                if t.kind not in ("int", "bool"):
                    return None
                out.append((None, t, off + size, t.width, ins.value))
                size += t.width
                continue
            sub = self.fixed_layout(t, prefix + ins.name + ".", off + size, depth + 1)
            if sub is None:
                return None
            out += sub[0]
            size += sub[1]
        return out, size

    def sym_array(self, decl, ins, tref, base, n):
        """an array of symbolically many (n) fixed-size elements: one opaque piece of n*z bytes; its
        block structure enters as ground instances at the loop index (split property of the fold)"""
        ex = self.ex
        lay = self.fixed_layout(tref)
        if lay is None:
            raise Unsupported("array with a symbolic element count whose elements are not fixed-size integers / structs of integers")
        layout, z = lay
        if z == 0:
            raise Unsupported("zero-size element")
        arr = self.fresh_bytes(base + ins.name + ".arr")
        ex.fact(z3.Length(arr) == n * z)
        A = {}
        for leaf in layout:
            if leaf[0] is None:
                continue
            path, t = leaf[0], leaf[1]
            sort = BOOL if t.kind == "bool" else INT
            A[path] = z3.Function(f"A_{base}{ins.name}_{path or 'item'}", INT, sort)
        info = dict(key=(decl.name, ins.name), off0=self.offset, z=z, n=n, layout=layout, A=A, arr=arr, tref=tref)
        self.sym[(decl.name, ins.name)] = info
        self.emit(arr, n * z)
        return ("symarray", info)

    def emit_int(self, v, tref):
        if tref.under == "byte":
            self.emit(z3.Unit(v), I(1))
        else:
            # C07: the first k bytes of encode_number(v) decode to v for 0 <= v < 253^k (lemma
            # prefix_decodes_and_filler), and contain neither 0x00 nor 0xFF (C06)
            k = tref.width
            p = ENCF(v, I(k))
            self.ex.fact(z3.Length(p) == k)
            self.ex.fact(DECF(p) == v)
            self.emit(p, I(k))

    def emit_break(self):
        self.emit(z3.Unit(I(0xFF)), I(1), True)

    def value(self, tref, ins, base, mode, lenvar=None, depth=0):
        """emit one value, return its model"""
        ex = self.ex
        if tref.kind in ("int", "enum"):
            v = ex.fresh(base)
            ex.fact(z3.And(v >= 0, v < tref.limit))
            self.emit_int(v, tref)
            return v
        if tref.kind == "bool":
            b = ex.fresh(base, BOOL)
            self.emit_int(z3.If(b, I(1), I(0)), tref)
            return b
        if tref.kind in ("string", "encoded_string"):
            b = lenvar if lenvar is not None else self.fresh_bytes(base)
            n = z3.Length(b)
            x = b
            xn = n
            if ins is not None and ins.tag == "field" and ins.length is not None:
                if ins.length.isdigit():
                    L = int(ins.length)
                    if ins.padded:
                        ex.fact(n <= L)
                        pad = self.fresh_bytes(base + ".pad")
                        ex.fact(z3.Length(pad) == L - n)
                        x = z3.Concat(b, pad)
                        xn = I(L)
                        ex.fact(CUT(x) == b)        # C04 rt_padded_string: b contains no 0xFF (domain), pad is all 0xFF
                    else:
                        ex.fact(n == L)
                elif ins.padded:
                    # padded with the length taken from a <length> field: written without padding (the length IS the
                    # string's), read with the cut at the first 0xFF - the same C04 lemma with an empty pad
                    ex.fact(CUT(x) == b)
            if tref.kind == "encoded_string":
                ex.fact(z3.Length(ES(x)) == xn)
                ex.fact(DS(ES(x)) == x)             # C08 decode_then_encode / C04: no 0x7E in the image (domain)
                self.emit(ES(x), xn)
            else:
                self.emit(x, xn)
            return ZSeq(DSTR(b), "int")
        if tref.kind == "blob":
            b = self.fresh_bytes(base)
            self.emit(b, z3.Length(b))
            return ZSeq(b, "int")
        if tref.kind == "struct":
            if depth > 5:
                raise Unsupported("struct nesting too deep")
            return self.obj(tref.struct, base + ".", mode, False, depth + 1)
        raise Unsupported(tref.kind)

    def obj(self, decl, base, mode_in, ctx_chunked, depth=0):
        """emit the object, return its model (dict of field -> model)"""
        ex = self.ex
        spec = self.spec
        model = {"__class__": decl.name}
        st = {"mode": mode_in, "chunked": ctx_chunked, "missing": False}
        types = {}
        flat = list(X.flatten_own(decl.body))
        lens = {i.name: i for i in flat if i.tag == "length"}
        lenvars = {}
        start = len(self.pieces)

        def ref_of(lname):
            for i in flat:
                if i.tag in ("field", "array") and i.length == lname:
                    return i
            return None

        def run(body):
            for ins in body:
                if ins.tag == "field":
                    tref = X.resolve_type(spec, ins.type, ins.length if is_str_type(ins.type) else None)
                    if ins.name is not None:
                        types[ins.name] = tref
                    if ins.value is not None:
                        if tref.kind == "int":
                            self.emit_int(I(int(ins.value)), tref)
                            lit = I(int(ins.value))
                        elif tref.kind == "bool":
                            self.emit_int(I(1 if ins.value == "true" else 0), tref)
                            lit = z3.BoolVal(ins.value == "true")
                        else:
                            bs = [ord(c) for c in ins.value]
                            if any(c > 0x7D or c < 0x20 for c in bs):
                                raise Unsupported("hard-coded string outside the plain ASCII range")
                            x = ex.lit_bytes(bs)
                            L = len(bs)
                            if ins.length is not None and ins.padded:
                                L = int(ins.length)
                                x = z3.Concat(x, ex.lit_bytes([0xFF] * (L - len(bs)))) if L > len(bs) else x
                            if tref.kind == "encoded_string":
                                ex.fact(z3.Length(ES(x)) == L)
                                self.emit(ES(x), I(L))
                            else:
                                self.emit(x, I(L))
                            lit = ZSeq(ex.lit_bytes(bs), "int")
                        if ins.name is not None:
                            model[ins.name] = ("lit", lit)
                        continue
                    if ins.optional:
                        if st["missing"] or ex.choose(2) == 1:
                            st["missing"] = True
                            model[ins.name] = None
                            continue
                    lv = lenvars.get(ins.length) if ins.length in lens else None
                    before = len(self.pieces)
                    m = self.value(tref, ins, base + ins.name, st["mode"], lv, depth)
                    if ins.optional:
                        # the documented lossy case: a present-but-empty optional reads back as absent
                        tot = sum((p[1] for p in self.pieces[before:]), I(0))
                        ex.fact(tot > 0)
                    model[ins.name] = m
                elif ins.tag == "length":
                    tref = X.resolve_type(spec, ins.type)
                    types[ins.name] = tref
                    ref = ref_of(ins.name)
                    if ref is None or ins.optional or ref.optional:
                        raise Unsupported("length field outside the round-trip fragment")
                    if ref.tag == "array":
                        if ref.delimited:
                            raise Unsupported("delimited array with a length field (break offsets not static)")
                        cnt = ex.fresh(base + ref.name + ".count")
                        ex.fact(cnt >= 0)
                        lenvars[ins.name] = cnt
                        nn = cnt - ins.offset
                        ex.fact(z3.And(nn >= 0, nn < tref.limit))
                        self.emit_int(nn, tref)
                        continue
                    b = self.fresh_bytes(base + ref.name)
                    lenvars[ins.name] = b
                    n = z3.Length(b) - ins.offset
                    ex.fact(z3.And(n >= 0, n < tref.limit))
                    self.emit_int(n, tref)
                elif ins.tag == "array":
                    tref = X.resolve_type(spec, ins.type)
                    if ins.length is None or not ins.length.isdigit():
                        if ins.delimited or ins.optional:
                            raise Unsupported("delimited / optional array with a symbolic element count")
                        if ins.length is not None:
                            cnt = lenvars[ins.length]
                        else:
                            cnt = ex.fresh(base + ins.name + ".count")      # read to the end of the chunk / data
                            ex.fact(cnt >= 0)
                        model[ins.name] = self.sym_array(decl, ins, tref, base, cnt)
                        continue
                    n = int(ins.length)
                    if n > 4:
                        raise Unsupported("array longer than the unrolling bound")
                    if ins.optional:
                        if st["missing"] or ex.choose(2) == 1:
                            st["missing"] = True
                            model[ins.name] = None
                            continue
                        if n == 0:
                            raise Unsupported("empty optional array")
                    items = []
                    for k in range(n):
                        if ins.delimited and not ins.trailing and k > 0:
                            self.emit_break()
                        items.append(self.value(tref, None, f"{base}{ins.name}[{k}]", st["mode"], None, depth))
                        if ins.delimited and ins.trailing:
                            self.emit_break()
                    model[ins.name] = items
                elif ins.tag == "dummy":
                    tref = X.resolve_type(spec, ins.type)
                    if len(self.pieces) == start:
                        if tref.kind == "int":
                            self.emit_int(I(int(ins.value)), tref)
                        else:
                            raise Unsupported("non-integer dummy")
                elif ins.tag == "break":
                    self.emit_break()
                    st["missing"] = False
                elif ins.tag == "chunked":
                    was = st["chunked"]
                    if not was:
                        st["chunked"] = True
                        st["mode"] = True
                    run(ins.body)
                    if not was:
                        st["chunked"] = False
                        st["mode"] = False
                elif ins.tag == "switch":
                    tref = types[ins.field]
                    v = model[ins.field]
                    wants = []
                    default = None
                    for c in ins.cases:
                        if c.default:
                            default = c
                            continue
                        if tref.kind == "enum":
                            ev = tref.enum.by_name(c.value)
                            wants.append((ev[1] if ev is not None else int(c.value), c))
                        else:
                            wants.append((int(c.value), c))
                    k = ex.choose(len(wants) + 1)
                    if k < len(wants):
                        ex.assume(v == wants[k][0])
                        for w2, _ in wants[:k]:
                            ex.assume(v != w2)
                        chosen = wants[k][1]
                    else:
                        for w2, _ in wants:
                            ex.assume(v != w2)
                        chosen = default
                    if chosen is not None and chosen.body:
                        from xmlsem.concrete import case_class_name
                        cdecl = self.pv.decls[case_class_name(decl.name, ins.field, chosen)]
                        model[ins.field + "_data"] = self.obj(cdecl, base + ins.field + "_data.", st["mode"], st["chunked"], depth + 1)
                    else:
                        model[ins.field + "_data"] = None
        run(decl.body)
        return model


def verify_roundtrip(pv, decl):
    ok, _, _ = W.c01_domain(pv.spec, decl, pv.ctx_chunked[decl.name])
    if not ok:
        return None
    ci = pv.class_info(decl)
    fi = ci.methods["deserialize"]
    ex = pv.new_exec(decl)
    ex.inject_failures = False
    ex.rt_mode = True
    ex.current_fi = fi
    name = decl.name
    state = {}

    def hook(fr, node, ordn):
        bld = state.get("bld")
        cls = fr.fi.cls.name if fr.fi is not None and fr.fi.cls is not None else None
        d = pv.decls.get(cls)
        if not isinstance(node, ast.For):
            raise Unsupported("while loop in round-trip mode (read-to-end of variable-size elements)")
        if bld is None or d is None:
            return {"unroll": 5}
        arrays = [i for i in X.flatten_own(d.body) if i.tag == "array"]
        if ordn >= len(arrays):
            return {"unroll": 5}
        info = bld.sym.get((cls, arrays[ordn].name))
        if info is None:
            return {"unroll": 5}
        rd = ex.rt
        var = node.target.id
        lname = arrays[ordn].name
        ref = fr.env.get(lname)
        if not (isinstance(ref, Ref) and isinstance(ex.heap.get(ref.id), PyList) and not ex.heap[ref.id].items):
            raise Unsupported("array loop without its empty result list")
        al = AbsList(info, I(0))
        ex.heap[ref.id] = al
        cs0, mode0 = rd.cs, rd.mode
        off0, z, data = info["off0"], info["z"], rd.data

        def inv(ex2, fr2):
            i = fr2.env[var]
            return [("position", rd.pos == off0 + i * z), ("count", al.count == i), ("chunk-start", rd.cs == cs0),
                    ("mode", rd.mode == mode0)]

        def on_head(ex2, fr2):
            i = fr2.env[var]
            # havoc of the reader / list state happened; block structure of the array piece at index i
            for leaf in info["layout"]:
                if leaf[0] is None:
                    continue
                path, t, o, w = leaf[0], leaf[1], leaf[2], leaf[3]
                a = info["A"][path](i)
                at = off0 + i * z + o
                inside = z3.And(i >= 0, i < info["n"])
                if t.kind == "bool":
                    v = z3.If(a, I(1), I(0))
                else:
                    v = a
                    ex2.fact(z3.Implies(inside, z3.And(v >= 0, v < t.limit)))
                if t.under == "byte":
                    ex2.fact(z3.Implies(inside, data[at] == v))
                else:
                    p = ENCF(v, I(w))
                    ex2.fact(z3.Length(p) == w)
                    ex2.fact(DECF(p) == v)
                    ex2.fact(z3.Implies(inside, z3.Extract(data, at, I(w)) == p))
        return {"z3inv": inv, "on_head": on_head, "rt_havoc": (rd, al)}
    ex.loop_hook = hook

    def compare(got, want, path):
        if isinstance(want, tuple) and want[0] == "lit":
            want = want[1]
        if want is None:
            isnone = got.isnone if isinstance(got, MaybeV) else z3.BoolVal(got is NONE)
            ex.oblige("roundtrip", isnone, path, {"why": f"{path}: absent field read back as present", "property": "C01"})
            return
        if isinstance(got, MaybeV):
            ex.oblige("roundtrip", z3.Not(got.isnone), path + ".present",
                      {"why": f"{path}: present field read back as absent", "property": "C01"})
            ex.assume(z3.Not(got.isnone))
            got = got.val
        if got is NONE or got is None:
            ex.oblige("roundtrip", z3.BoolVal(False), path, {"why": f"{path}: missing after the round trip", "property": "C01"})
            return
        if isinstance(want, dict):
            o = ex.obj(got)
            if o is None:
                ex.oblige("roundtrip", z3.BoolVal(False), path, {"why": "nested object missing", "property": "C01"})
                return
            ex.oblige("roundtrip", z3.BoolVal(o.cls is not None and o.cls.name == want["__class__"]), path + ".class",
                      {"why": f"{path}: object of class {o.cls.name if o.cls else None}, expected {want['__class__']}",
                       "property": "C01"})
            for k, w in want.items():
                if k != "__class__":
                    compare(o.fields.get("_" + k), w, path + "." + k)
            return
        if isinstance(want, tuple) and want[0] == "symarray":
            lst = ex.heap.get(got.id) if isinstance(got, Ref) else got
            if not isinstance(lst, AbsList) or lst.info is not want[1]:
                ex.oblige("roundtrip", z3.BoolVal(False), path, {"why": f"{path}: array not read back by its loop", "property": "C01"})
                return
            ex.oblige("roundtrip", lst.count == want[1]["n"], path + ".len",
                      {"why": f"{path}: number of elements read back differs from the number written", "property": "C01"})
            return
        if isinstance(want, list):
            lst = ex.heap.get(got.id) if isinstance(got, Ref) else got
            if not isinstance(lst, PyList):
                ex.oblige("roundtrip", z3.BoolVal(False), path, {"why": "array missing", "property": "C01"})
                return
            ex.oblige("roundtrip", z3.BoolVal(len(lst.items) == len(want)), path + ".len",
                      {"why": f"{path}: {len(lst.items)} elements read back, {len(want)} written", "property": "C01"})
            for k, (g, w) in enumerate(zip(lst.items, want)):
                compare(g, w, f"{path}[{k}]")
            return
        if isinstance(want, ZSeq):
            z = ex.zseq(got)
            ex.oblige("roundtrip", z.t == want.t if z is not None else z3.BoolVal(False), path,
                      {"why": f"{path}: string / blob differs after the round trip", "property": "C01"})
            return
        g = got
        if z3.is_bool(want) and is_int(g):
            g = g != 0
        ex.oblige("roundtrip", g == want, path, {"why": f"{path} differs after the round trip", "property": "C01"})

    def run():
        ex.fname = f"{name}.roundtrip"
        bld = Builder(pv, ex)
        state["bld"] = bld
        ctx = pv.ctx_chunked[name]
        model = bld.obj(decl, "", ctx, ctx)
        terms = []

        def flat(t):
            # a flat concatenation (z3's simplifier mis-indexes nth over nested concatenations of if-lifted units)
            if z3.is_app(t) and t.decl().kind() == z3.Z3_OP_SEQ_CONCAT:
                for ch in t.children():
                    flat(ch)
            else:
                terms.append(t)
        for p in bld.pieces:
            flat(p[0])
        data = z3.Concat(*terms) if len(terms) > 1 else (terms[0] if terms else EMPTY)
        off = I(0)
        breaks = []
        for t, n, is_break in bld.pieces:
            if is_break:
                breaks.append(simp(off))
            off = off + n
        total = simp(off)
        ex.fact(z3.Length(data) == total)
        # proof hints: the split property of the concatenation, piece by piece - each is proved as
        # its own obligation, then assumed, so that the reader's Extract terms match by arithmetic alone
        off = I(0)
        flat_terms = []          # per piece: its flat unit/terms
        for k, (t, n, is_break) in enumerate(bld.pieces):
            if len(bld.pieces) > 1 and k > 0:
                pre = z3.Concat(*flat_prefix) if len(flat_prefix) > 1 else flat_prefix[0]
                # canonical form extract(pre ++ p ++ suf, |pre|, |p|) = p, plus |pre| = offset (arithmetic)
                h1 = z3.Length(pre) == simp(off)
                h2 = z3.Extract(data, z3.Length(pre), z3.Length(t)) == t
                ex.oblige("roundtrip-hint", h1, f"offset{k}", {"why": "length of the prefix", "property": "C01"})
                ex.assume(h1)
                ex.oblige("roundtrip-hint", h2, f"piece{k}", {"why": "split property of the concatenation", "property": "C01"})
                ex.assume(h2)
                ex.assume(z3.Extract(data, simp(off), n) == t)
            elif len(bld.pieces) > 1:
                h2 = z3.Extract(data, I(0), z3.Length(t)) == t
                ex.oblige("roundtrip-hint", h2, f"piece{k}", {"why": "split property of the concatenation", "property": "C01"})
                ex.assume(h2)
            if k == 0:
                flat_prefix = []
            sub = []

            def flat2(x):
                if z3.is_app(x) and x.decl().kind() == z3.Z3_OP_SEQ_CONCAT:
                    for ch in x.children():
                        flat2(ch)
                else:
                    sub.append(x)
            flat2(t)
            flat_prefix = flat_prefix + sub
            off = off + n
        rd = RTReader(ex, data, breaks, ctx, total)
        ex.rt = rd
        rci = repo.lookup(READER_Q)
        r = ex.alloc(ObjV(rci, {"rt": True}))
        fr = Frame(fi, fi.module, {"reader": r})
        ex.frames = []
        try:
            try:
                ex.exec_block(fi.body(), fr)
                ret = NONE
            except ReturnSig as rs:
                ret = rs.value
        except PyExc as e:
            ex.oblige("roundtrip", z3.BoolVal(False), f"raises-{e.cls}",
                      {"why": f"{e.cls} while reading back a valid object", "property": "C01"})
            return
        compare(ret, model, name)
        ex.oblige("roundtrip", rd.pos == total, "consumed",
                  {"why": "the deserializer does not consume exactly the bytes written", "property": "C01"})
        ex.oblige("roundtrip", rd.rem() == 0, "remaining", {"why": "data remains after the round trip", "property": "C01"})
        o = ex.obj(ret)
        bs = o.fields.get("_byte_size") if o else None
        ex.oblige("roundtrip", bs == total if bs is not None and is_int(bs) else z3.BoolVal(False), "byte_size",
                  {"why": "byte_size differs from the number of bytes written", "property": "C01"})
    try:
        ex.explore(run)
    except Unsupported as u:
        ex.rt_unsupported = str(u)
        return ("unsupported", str(u))
    return ex
