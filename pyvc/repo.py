"""Source loading: every run re-reads the functions under contract from the repository's
current working tree (VERIF_REPO, default /repo).  Nothing here is a model of the code: the
objects handed to the executor are the `ast` nodes of the real files."""
import ast
import hashlib
import os

REPO = os.environ.get("VERIF_REPO", "/repo")

# package roots: dotted prefix -> directory under the repo
ROOTS = {
    "eolib": "src/eolib",
    "protocol_code_generator": "protocol_code_generator",
}


class ModuleInfo:
    def __init__(self, name, path, tree, src):
        self.name = name
        self.path = path
        self.tree = tree
        self.src = src
        self.sha = hashlib.sha256(src.encode()).hexdigest()
        self.functions = {}
        self.classes = {}
        self.imports = {}      # local name -> ('mod', dotted) | ('from', dotted, attr)
        self.assigns = {}      # module-level NAME = expr  (last one wins)
        for node in tree.body:
            if isinstance(node, ast.FunctionDef):
                self.functions[node.name] = FunctionInfo(self, None, node)
            elif isinstance(node, ast.ClassDef):
                self.classes[node.name] = ClassInfo(self, node)
            elif isinstance(node, ast.Import):
                for a in node.names:
                    self.imports[a.asname or a.name.split(".")[0]] = ("mod", a.name)
            elif isinstance(node, ast.ImportFrom):
                base = node.module or ""
                if node.level:
                    parts = name.split(".")
                    # a module file: level 1 = its package
                    pkg = parts[: len(parts) - node.level]
                    base = ".".join(pkg + ([node.module] if node.module else []))
                for a in node.names:
                    self.imports[a.asname or a.name] = ("from", base, a.name)
            elif isinstance(node, ast.Assign) and len(node.targets) == 1 and isinstance(node.targets[0], ast.Name):
                self.assigns[node.targets[0].id] = node.value
            elif isinstance(node, ast.AnnAssign) and isinstance(node.target, ast.Name) and node.value is not None:
                self.assigns[node.target.id] = node.value


class ClassInfo:
    def __init__(self, module, node, outer=None):
        self.module = module
        self.node = node
        self.name = node.name if outer is None else outer.name + "." + node.name
        self.qualname = module.name + "." + self.name
        self.methods = {}
        self.props = {}      # name -> {'get': FunctionInfo, 'set': FunctionInfo}
        self.annotations = {}
        self.inner = {}
        self.class_assigns = {}
        for n in node.body:
            if isinstance(n, ast.FunctionDef):
                fi = FunctionInfo(module, self, n)
                kind = fi.kind
                if kind == "property":
                    self.props.setdefault(n.name, {})["get"] = fi
                elif kind == "setter":
                    self.props.setdefault(n.name, {})["set"] = fi
                else:
                    self.methods[n.name] = fi
            elif isinstance(n, ast.AnnAssign) and isinstance(n.target, ast.Name):
                self.annotations[n.target.id] = n.annotation
                if n.value is not None:
                    self.class_assigns[n.target.id] = n.value
            elif isinstance(n, ast.Assign) and len(n.targets) == 1 and isinstance(n.targets[0], ast.Name):
                self.class_assigns[n.targets[0].id] = n.value
            elif isinstance(n, ast.ClassDef):
                self.inner[n.name] = ClassInfo(module, n, self)

    def bases(self):
        out = []
        for b in self.node.bases:
            if isinstance(b, ast.Name):
                ci = resolve_class(self.module, b.id)
                if ci is not None:
                    out.append(ci)
        return out

    def mro(self):
        out = [self]
        for b in self.bases():
            for c in b.mro():
                if c not in out:
                    out.append(c)
        return out

    def find_method(self, name, after=None):
        mro = self.mro()
        if after is not None:
            mro = mro[mro.index(after) + 1:]
        for c in mro:
            if name in c.methods:
                return c.methods[name]
        return None

    def find_prop(self, name):
        for c in self.mro():
            if name in c.props:
                return c.props[name]
        return None

    def is_subclass_of(self, qualname):
        return any(c.qualname == qualname for c in self.mro())


class FunctionInfo:
    def __init__(self, module, cls, node):
        self.module = module
        self.cls = cls
        self.node = node
        self.name = node.name
        decos = []
        for d in node.decorator_list:
            if isinstance(d, ast.Name):
                decos.append(d.id)
            elif isinstance(d, ast.Attribute):
                decos.append(d.attr)
        # a decorator other than the descriptor ones wraps the function in something the VC generator does not model
        # (caches, registries, wrappers with state): such a function is outside the fragment
        known = {"staticmethod", "classmethod", "property", "abstractproperty", "setter", "getter", "deleter",
                 "abstractmethod", "override", "final", "overload"}
        self.foreign_decorators = []
        for d in node.decorator_list:
            base = d.func if isinstance(d, ast.Call) else d
            nm = base.id if isinstance(base, ast.Name) else (base.attr if isinstance(base, ast.Attribute) else "?")
            if nm not in known or isinstance(d, ast.Call):
                self.foreign_decorators.append(ast.unparse(d))
        self.kind = "function"
        if "staticmethod" in decos:
            self.kind = "static"
        elif "classmethod" in decos:
            self.kind = "classmethod"
        elif "property" in decos or "abstractproperty" in decos:
            self.kind = "property"
        elif "setter" in decos:
            self.kind = "setter"
        elif cls is not None:
            self.kind = "method"
        q = module.name + "."
        if cls is not None:
            q += cls.name + "."
        q += node.name
        if self.kind == "setter":
            q += ".setter"
        self.qualname = q

    @property
    def params(self):
        a = self.node.args
        return [x.arg for x in a.posonlyargs + a.args + a.kwonlyargs]

    def defaults(self):
        a = self.node.args
        pos = a.posonlyargs + a.args
        out = {}
        for p, d in zip(pos[len(pos) - len(a.defaults):], a.defaults):
            out[p.arg] = d
        for p, d in zip(a.kwonlyargs, a.kw_defaults):
            if d is not None:
                out[p.arg] = d
        return out

    def annotation(self, name):
        a = self.node.args
        for x in a.posonlyargs + a.args + a.kwonlyargs:
            if x.arg == name and x.annotation is not None:
                return ast.unparse(x.annotation)
        return None

    def body(self):
        b = self.node.body
        if b and isinstance(b[0], ast.Expr) and isinstance(b[0].value, ast.Constant) and isinstance(b[0].value.value, str):
            return b[1:]          # extraction drops the docstring
        return b


_modules = {}
_extra_roots = {}


def add_root(prefix, directory):
    """Register an extra package root (absolute directory); used for /verif lemma packages and
    for generated-code scratch trees."""
    _extra_roots[prefix] = directory


def module_path(name):
    for prefix, d in list(_extra_roots.items()) + [(k, os.path.join(REPO, v)) for k, v in ROOTS.items()]:
        if name == prefix or name.startswith(prefix + "."):
            rel = name[len(prefix):].lstrip(".").replace(".", "/")
            base = os.path.join(d, rel) if rel else d
            if os.path.isfile(base + ".py"):
                return base + ".py"
            if os.path.isfile(os.path.join(base, "__init__.py")):
                return os.path.join(base, "__init__.py")
    return None


def load_module(name):
    if name in _modules:
        return _modules[name]
    path = module_path(name)
    if path is None:
        return None
    with open(path, encoding="utf-8") as f:
        src = f.read()
    mi = ModuleInfo(name, path, ast.parse(src), src)
    _modules[name] = mi
    return mi


def reset():
    _modules.clear()


def resolve_class(module, name):
    """Class visible under `name` in `module` (own or imported)."""
    if name in module.classes:
        return module.classes[name]
    imp = module.imports.get(name)
    if imp and imp[0] == "from":
        m = load_module(imp[1])
        if m is not None:
            if imp[2] in m.classes:
                return m.classes[imp[2]]
            if imp[2] in m.imports:
                return resolve_class(m, imp[2])
    return None


def resolve_function(module, name):
    if name in module.functions:
        return module.functions[name]
    imp = module.imports.get(name)
    if imp and imp[0] == "from":
        m = load_module(imp[1])
        if m is not None:
            if imp[2] in m.functions:
                return m.functions[imp[2]]
            if imp[2] in m.imports:
                return resolve_function(m, imp[2])
    return None


def resolve_constant_expr(module, name):
    """(module, expr-ast) of a module-level constant visible as `name`."""
    if name in module.assigns:
        return module, module.assigns[name]
    imp = module.imports.get(name)
    if imp and imp[0] == "from":
        m = load_module(imp[1])
        if m is not None:
            return resolve_constant_expr(m, imp[2])
    return None


def lookup(qualname):
    """qualname -> FunctionInfo | ClassInfo.  Tries the longest module prefix that is a file."""
    parts = qualname.split(".")
    setter = False
    if parts[-1] == "setter":
        setter = True
        parts = parts[:-1]
    for cut in range(len(parts) - 1, 0, -1):
        m = load_module(".".join(parts[:cut]))
        if m is None:
            continue
        rest = parts[cut:]
        if len(rest) == 1:
            if rest[0] in m.functions:
                return m.functions[rest[0]]
            if rest[0] in m.classes:
                return m.classes[rest[0]]
            continue
        ci = m.classes.get(rest[0])
        for r in rest[1:-1]:
            ci = ci.inner.get(r) if ci else None
        if ci is None:
            continue
        last = rest[-1]
        if last in ci.inner:
            return ci.inner[last]
        if setter:
            return ci.props[last]["set"]
        if last in ci.methods:
            return ci.methods[last]
        if last in ci.props:
            return ci.props[last]["get"]
    raise KeyError(qualname)
