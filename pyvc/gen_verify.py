"""E2 driver: run the real generator on a spec tree, then verify every emitted class."""
import ast
import os
import shutil
import subprocess
import sys
import tempfile
import z3

from . import repo
from .contracts import Registry
from .exec import (Frame, Unsupported, PathEnd, PyExc, ReturnSig, Ref, ObjV, NONE, I, INT, BOOL, is_int, is_bool,
                   simp, Obligation)
from .gen import (GenExec, Vocab, ZSeq, MaybeV, ObjSym, EmptyList, BYTES, OBJ, RS, SEQ_OBJ, SEQ_STR, EMPTY, WRITER_Q,
                  READER_Q, field_plan)
from .gen_spec import ObjectSpec, tref_of, elem_sort, is_str_type
from xmlsem import ir as X

GEN_ROOT = "eolib.protocol._generated"
ALLOWED_SER_EXC = {"SerializationError", "ValueError", "InjectedFailure"}
ALLOWED_DES_EXC = {"ValueError", "InjectedFailure"}


def run_generator(spec_dir, out_dir):
    """the repository's real generator, current working tree, in a fresh interpreter"""
    code = ("import sys; sys.path.insert(0, %r)\n"
            "from pathlib import Path\n"
            "from protocol_code_generator.generate.code_generator import ProtocolCodeGenerator\n"
            "ProtocolCodeGenerator(Path(%r)).generate(Path(%r))\n") % (repo.REPO, spec_dir, out_dir)
    p = subprocess.run([sys.executable, "-c", code], capture_output=True, text=True)
    return p.returncode, p.stdout, p.stderr


class ProgramVerifier:
    def __init__(self, spec_dir, out_dir):
        self.spec_dir = spec_dir
        self.out_dir = out_dir
        self.spec = X.load_tree(spec_dir)
        self.decls = {o.name: o for o in X.all_objects(self.spec)}
        repo.add_root(GEN_ROOT, out_dir)
        for k in [k for k in repo._modules if k.startswith(GEN_ROOT)]:
            del repo._modules[k]
        self.reg = Registry([])
        self.V = Vocab()
        self.ctx_chunked = self.compute_ctx()
        # progress summaries claimed per class: "always" or only "chunked" (when entered in chunked mode)
        self.progress = {}
        for name, d in self.decls.items():
            if self.consumes_when_remaining(d):
                self.progress[name] = "always"
            elif self.consumes_when_remaining(d, True):
                self.progress[name] = "chunked"

    # ---- static facts from the XML
    def compute_ctx(self):
        """for case classes: is the switch inside a chunked section of its (static) context?"""
        out = {}

        def walk(decl, ctx):
            out[decl.name] = ctx

            def run(body, ch):
                for ins in body:
                    if ins.tag == "chunked":
                        run(ins.body, True)
                    elif ins.tag == "switch":
                        for c in ins.cases:
                            if c.body:
                                nm = decl.name + "." + X.snake_to_pascal(ins.field) + "Data" + ("Default" if c.default else c.value)
                                walk(self.decls[nm], ch)
            run(decl.body, ctx)
        for d in list(self.spec.structs.values()) + self.spec.packets:
            walk(d, False)
        return out

    def consumes_when_remaining(self, decl, ctx=None):
        """progress summary CLAIMED for this object's deserializer (and then proved as its obligation
        summary[progress]): whenever data remains on entry, the reader measure strictly decreases.
        Claimed when the object executes an own <break> (the chunk start advances) or when its first
        instruction reads at least one byte in the ENTRY mode - an own chunked section entered from
        unchunked mode may hide the remaining data behind a break, so nothing is claimed then"""
        ctx = self.ctx_chunked.get(decl.name, False) if ctx is None else ctx
        if any(ins.tag == "break" for ins in X.flatten_own(decl.body)):
            return True
        for ins in X.flatten_own(decl.body):
            if ins.tag == "chunked":
                if ctx:
                    continue
                return False
            if ins.tag in ("field", "length", "dummy"):
                if ins.tag == "field" and is_str_type(ins.type) and ins.length is not None and ins.length.isdigit() and int(ins.length) == 0:
                    continue
                if ins.tag == "dummy":
                    return False            # a dummy is read only when nothing else was
                t = X.resolve_type(self.spec, ins.type, ins.length if is_str_type(ins.type) else None)
                if t.kind == "struct":
                    return self.consumes_when_remaining(t.struct, ctx)
                if ins.tag == "field" and is_str_type(ins.type) and ins.length is not None and not ins.length.isdigit():
                    return False            # length taken from data: may be zero
                return True
            if ins.tag == "array" and ins.length is None and not ins.optional:
                return False
            return False
        return False

    def class_info(self, decl):
        parts = decl.name.split(".")
        top = parts[0]
        mod = GEN_ROOT + ("." + decl.path.replace("/", ".") if decl.path else "") + "." + X.pascal_to_snake(top)
        m = repo.load_module(mod)
        if m is None:
            raise Unsupported(f"generated module {mod} not found")
        ci = m.classes[top]
        for p in parts[1:]:
            ci = ci.inner[p]
        return ci

    # ---- symbolic objects
    def sym_field(self, ex, fd, base, for_init=False):
        tref = fd["tref"]
        isnone = ex.fresh(base + ".none", BOOL)
        if fd.get("case_data"):
            return MaybeV(isnone, ObjSym(ex.fresh(base, OBJ), None))
        if fd["array"]:
            sort, elem = elem_sort(tref)
            if sort is None:
                raise Unsupported(f"array element type {tref.kind}")
            arr = ex.fresh(base, sort)
            return MaybeV(isnone, ZSeq(arr, elem, nonneg=(elem == "int")))
        if tref.kind in ("int", "enum"):
            v = ex.fresh(base)
            ex.fact(v >= 0)
            return MaybeV(isnone, v)
        if tref.kind == "bool":
            return MaybeV(isnone, ex.fresh(base, BOOL))
        if tref.kind in ("string", "encoded_string", "blob"):
            return MaybeV(isnone, ZSeq(ex.fresh(base, BYTES), "int"))
        if tref.kind == "struct":
            return MaybeV(isnone, ObjSym(ex.fresh(base, OBJ), tref.name))
        raise Unsupported(tref.kind)

    def lit_field(self, ex, fd):
        tref, text = fd["tref"], fd["hardcoded"]
        if tref.kind == "int":
            return I(int(text))
        if tref.kind == "bool":
            return z3.BoolVal(text == "true")
        return ZSeq(ex.lit_bytes([ord(c) for c in text]), "int")

    def new_exec(self, decl):
        ex = GenExec(self.reg, self.V, self.spec, self.decls)
        self._cur_ex = ex
        ex.progress = self.progress
        ex.ctx_chunked = self.ctx_chunked
        ex.loop_lists = {}
        ex.list_hint = {}
        ex.current_fi = None
        return ex

    def make_writer(self, ex):
        ci = repo.lookup(WRITER_Q)
        d0 = ex.fresh("D0", BYTES)
        san0 = ex.fresh("san0", BOOL)
        return ex.alloc(ObjV(ci, {"data": ZSeq(d0, "int"), "_string_sanitization_mode": san0})), d0, san0

    def make_reader(self, ex):
        ci = repo.lookup(READER_Q)
        s0 = ex.fresh("st0", RS)
        self.V.state_facts(ex, s0)
        return ex.alloc(ObjV(ci, {"st": s0})), s0

    # ================================================================ serialize
    def verify_serialize(self, decl, variant=0):
        """variant 1: for separating (non-trailing) delimiters the emitted loop may write the 0xFF
        after the element guarded by `i + 1 < n` instead of before it guarded by `i > 0`; the bytes after
        the loop are the same, the loop-head state differs by one pending delimiter.  Both are invariants
        over the same FOLD function; the driver retries with variant 1 when variant 0 fails at a loop."""
        ci = self.class_info(decl)
        fi = ci.methods["serialize"]
        fields, lengths = field_plan(self.spec, decl)
        ex = self.new_exec(decl)
        ex.current_fi = fi
        name = decl.name
        ospec_holder = {}

        def run():
            ex.fname = f"{name}.serialize"
            w, d0, san0 = self.make_writer(ex)
            fvals = {}
            objfields = {"_byte_size": ex.fresh("byte_size")}
            for fd in fields:
                if fd["hardcoded"] is not None:
                    v = self.lit_field(ex, fd)
                else:
                    v = self.sym_field(ex, fd, fd["name"])
                fvals[fd["name"]] = v
                objfields["_" + fd["name"]] = v
            os_ = ObjectSpec(ex, self.V, self.spec, decl, fvals, self.ctx_chunked[name])
            # object invariant established by the emitted __init__ (verified separately): every
            # length field equals the length of the field referencing it (which is then not None)
            for lname, lins in lengths.items():
                ref = os_.ref_of(lname)
                if ref is None:
                    raise Unsupported("length field never referenced (degenerate spec)")
                rv = fvals[ref.name]
                ex.fact(z3.Not(rv.isnone))
                n = z3.Length(rv.val.t)
                objfields["_" + lname] = MaybeV(z3.BoolVal(False), n)
                ex.fact(n - lins.offset >= 0)      # excluded domain: length below a positive offset
            data = ex.alloc(ObjV(ci, objfields))
            ex.frozen_data = data.id
            arrays = os_.arrays
            # vacuity: the assumptions made about the object on entry must be satisfiable (the
            # sequence solver does not answer sat reliably for whole paths, so exits are not covered
            # here; the native E3 runs exercise real normal and raising paths of every class)
            if not ex.covers:
                ex.covers.append((ex.fname + ":cover:entry", list(ex.pc)))

            def hook(fr, node, ordn):
                if ordn >= len(arrays):
                    raise Unsupported("more loops than arrays in serialize")
                ins = arrays[ordn]
                wobj = ex.obj(fr.env["writer"])
                entry_data = wobj.fields["data"].t
                entry_san = wobj.fields["_string_sanitization_mode"]
                real_entry_san = entry_san
                if X.resolve_type(self.spec, ins.type).kind in ("int", "enum", "bool"):
                    entry_san = z3.BoolVal(False)      # integer elements do not depend on the mode
                arr = fvals[ins.name].val
                F = os_.fold_fn(ins, arr.t.sort())
                A = os_.allvalid_fn(ins, arr.t.sort())
                var = node.target.id if isinstance(node, ast.For) else None

                def inv(ex2, fr2):
                    i = fr2.env[var]
                    wo = ex2.obj(fr2.env["writer"])
                    expect = z3.Concat(entry_data, F(arr.t, i, entry_san))
                    if variant == 1 and ins.delimited and not ins.trailing:
                        n_ = z3.Length(arr.t)
                        expect = z3.Concat(expect, z3.If(z3.And(i > 0, i < n_), self.V.enc(ex2, I(0xFF), "byte"), EMPTY))
                    return [("data", wo.fields["data"].t == expect),
                            ("mode", wo.fields["_string_sanitization_mode"] == real_entry_san),
                            ("valid-prefix", A(arr.t, i)),
                            ("bounds", z3.And(i >= 0, i <= z3.Length(arr.t)))]

                def on_head(ex2, fr2):
                    os_.unfold(ins, arr, fr2.env[var], entry_san)
                ex.fact(F(arr.t, I(0), entry_san) == EMPTY)
                ex.fact(A(arr.t, I(0)))
                return {"z3inv": inv, "on_head": on_head}
            ex.loop_hook = hook
            fr = Frame(fi, fi.module, {"writer": w, "data": data})
            ex.frames = []
            wobj = ex.obj(w)
            try:
                try:
                    ex.exec_block(fi.body(), fr)
                except ReturnSig:
                    pass
            except PyExc as e:
                line = getattr(e.node, "lineno", 0)
                if e.cls not in ALLOWED_SER_EXC:
                    ex.oblige("no-exc", z3.BoolVal(False), f"{e.cls}@L{line}",
                              {"why": f"{e.cls} escapes from serialize", "property": "C16"})
                ex.oblige("mode-restored-on-raise", ex.obj(w).fields["_string_sanitization_mode"] == san0, f"{e.cls}@L{line}",
                          {"why": "sanitisation mode not restored when serialize raises", "property": "C15"})
                if e.cls in ("SerializationError", "ValueError"):
                    # the other direction of C02: a constructible VALID object is never refused
                    _, valid_here = os_.wire_and_valid(san0)
                    ex.oblige("accepts-valid", z3.Not(valid_here), f"{e.cls}@L{line}",
                              {"why": f"serialize raises {e.cls} for an object that satisfies its declaration", "property": "C02"})
                return
            wire, valid = os_.wire_and_valid(san0)
            ex.oblige("mode-restored", ex.obj(w).fields["_string_sanitization_mode"] == san0, "normal",
                      {"why": "sanitisation mode after serialize differs from the mode on entry", "property": "C15"})
            ex.oblige("refuses-invalid", valid, "normal",
                      {"why": "serialize returned normally for an object that violates its declaration", "property": "C16"})
            ex.oblige("wire", ex.obj(w).fields["data"].t == z3.Concat(d0, wire), "normal",
                      {"why": "bytes differ from the wire format the XML prescribes", "property": "C02"})
        ex.explore(run)
        return ex

    # ================================================================ __init__
    def verify_init(self, decl):
        ci = self.class_info(decl)
        fi = ci.methods["__init__"]
        fields, lengths = field_plan(self.spec, decl)
        ex = self.new_exec(decl)
        ex.inject_failures = False
        ex.current_fi = fi
        name = decl.name
        flat = list(X.flatten_own(decl.body))

        def run():
            ex.fname = f"{name}.__init__"
            self_ref = ex.alloc(ObjV(ci, {}))
            env = {"self": self_ref}
            args = {}
            referenced = {i.length for i in flat if i.tag in ("field", "array") and i.length in lengths}
            for fd in fields:
                if fd["hardcoded"] is not None:
                    # a named hard-coded field is still a (ignored) constructor parameter: any value
                    env[fd["name"]] = self.sym_field(ex, dict(fd, hardcoded=None), fd["name"], for_init=True)
                    continue
                v = self.sym_field(ex, fd, fd["name"], for_init=True)
                ins = fd["ins"]
                required_seq = (fd["array"] or (ins.tag == "field" and ins.length in lengths)) and not fd["optional"]
                if required_seq:
                    ex.fact(z3.Not(v.isnone))       # domain: required array / length-referenced args are given
                args[fd["name"]] = v
                env[fd["name"]] = v
            if set(fi.params) != set(env):
                ex.oblige("ctor-signature", z3.BoolVal(False), "params",
                          {"why": f"constructor parameters {fi.params} differ from the declared fields {sorted(env)}",
                           "property": "C19"})
                return
            fr = Frame(fi, fi.module, env)
            ex.frames = []
            try:
                try:
                    ex.exec_block(fi.body(), fr)
                except ReturnSig:
                    pass
            except PyExc as e:
                ex.oblige("no-exc", z3.BoolVal(False), f"{e.cls}@L{getattr(e.node, 'lineno', 0)}",
                          {"why": f"{e.cls} escapes from the constructor", "property": "C19"})
                return
            o = ex.obj(self_ref)
            for fd in fields:
                got = o.fields.get("_" + fd["name"])
                if got is None:
                    ex.oblige("ctor-field", z3.BoolVal(False), fd["name"], {"why": "field not set by the constructor"})
                    continue
                if fd["hardcoded"] is not None:
                    want = self.lit_field(ex, fd)
                    eq = ex.cmp(ast.Eq(), got, want, fr, None) if not isinstance(want, ZSeq) else (ex.zseq(got).t == want.t)
                    ex.oblige("ctor-literal", eq, fd["name"], {"why": "hard-coded field does not carry its literal",
                                                               "property": "C02"})
                    continue
                a = args[fd["name"]]
                same = self.same_value(got, a)
                ex.oblige("ctor-field", same, fd["name"],
                          {"why": "stored field differs from the constructor argument", "property": "C19"})
            for lname, lins in lengths.items():
                ref = [i for i in flat if i.tag in ("field", "array") and i.length == lname]
                if not ref:
                    continue
                got = o.fields.get("_" + lname)
                a = args[ref[0].name]
                if got is None:
                    ex.oblige("ctor-length", z3.BoolVal(False), lname, {"why": "length field not set"})
                    continue
                if isinstance(got, MaybeV):
                    cond = z3.And(got.isnone == a.isnone,
                                  z3.Implies(z3.Not(a.isnone), got.val == z3.Length(a.val.t)))
                elif got is NONE:
                    cond = a.isnone
                else:
                    cond = z3.Implies(z3.Not(a.isnone), ex.as_int(got) == z3.Length(a.val.t))
                ex.oblige("ctor-length", cond, lname,
                          {"why": "length field differs from the length of the field that references it",
                           "property": "C02"})
        ex.explore(run)
        return ex

    def same_value(self, got, a):
        ex = getattr(self, "_cur_ex", None)
        if ex is not None:
            if isinstance(got, Ref) and ex.zseq(got) is not None:
                got = ex.zseq(got)
            if isinstance(a, Ref) and ex.zseq(a) is not None:
                a = ex.zseq(a)
        if isinstance(got, MaybeV) and isinstance(a, MaybeV):
            return z3.And(got.isnone == a.isnone, z3.Implies(z3.Not(a.isnone), self.same_value(got.val, a.val)))
        if isinstance(a, MaybeV):
            return z3.And(z3.Not(a.isnone), self.same_value(got, a.val))
        if isinstance(got, ZSeq) and isinstance(a, ZSeq):
            return got.t == a.t
        if isinstance(got, ObjSym) and isinstance(a, ObjSym):
            return got.t == a.t
        if (is_int(got) or is_bool(got)) and (is_int(a) or is_bool(a)):
            return got == a
        return z3.BoolVal(False)

    # ================================================================ class shape (C19)
    def shape_obligations(self, decl):
        """decided on the AST of the emitted class under Python's descriptor rules"""
        ci = self.class_info(decl)
        fields, lengths = field_plan(self.spec, decl)
        out = []
        name = decl.name

        def ob(kind, ok, detail, why):
            out.append(Obligation(f"{name}:shape:{kind}:{detail}", "shape", [], z3.BoolVal(bool(ok)),
                                  {"why": why, "property": "C19"}, f"{name}.<class>"))
        public = [fd["name"] for fd in fields] + ["byte_size"]
        for p in public:
            pr = ci.props.get(p)
            ob("getter", pr is not None and "get" in pr, p, f"public field {p} is not a read-only property")
            ob("no-setter", pr is None or "set" not in pr, p, f"property {p} has a setter")
            if pr is not None and "get" in pr:
                body = pr["get"].body()
                ok = (len(body) == 1 and isinstance(body[0], ast.Return) and isinstance(body[0].value, ast.Attribute)
                      and isinstance(body[0].value.value, ast.Name) and body[0].value.value.id == "self"
                      and body[0].value.attr == "_" + p)
                ob("getter-pure", ok, p, f"getter of {p} is not `return self._{p}`")
        for bad in ("__setattr__", "__getattr__", "__getattribute__", "__delattr__", "__set__"):
            ob("no-" + bad, bad not in ci.methods, bad, f"class defines {bad}")
        ob("no-slots", "__slots__" not in ci.class_assigns, "__slots__", "class defines __slots__")
        for n in ci.node.body:
            if isinstance(n, ast.FunctionDef):
                for d in n.decorator_list:
                    if isinstance(d, ast.Attribute) and d.attr in ("setter", "deleter"):
                        ob("no-setter-deco", False, n.name, f"{n.name} has a {d.attr}")
        # arrays are stored as tuple(arg): a fresh immutable copy
        init = ci.methods.get("__init__")
        for fd in fields:
            if fd["array"] and init is not None:
                found = False
                for s in init.body():
                    if isinstance(s, ast.Assign) and isinstance(s.targets[0], ast.Attribute) and s.targets[0].attr == "_" + fd["name"]:
                        v = s.value
                        if isinstance(v, ast.IfExp) and isinstance(v.body, ast.Constant) and v.body.value is None \
                                and ast.unparse(v.test) == f"{fd['name']} is None":
                            v = v.orelse          # None stays None (absent optional array)
                        found = (isinstance(v, ast.Call) and isinstance(v.func, ast.Name) and v.func.id == "tuple"
                                 and len(v.args) == 1 and isinstance(v.args[0], ast.Name) and v.args[0].id == fd["name"])
                ob("array-is-tuple-copy", found, fd["name"], f"array field {fd['name']} is not stored as tuple({fd['name']})")
        # packets report the family and action they were declared with, and write() serializes self (C02)
        if decl.kind == "packet":
            def ob2(kind, ok, detail, why):
                out.append(Obligation(f"{name}:packet:{kind}:{detail}", "packet", [], z3.BoolVal(bool(ok)),
                                      {"why": why, "property": "C02"}, f"{name}.<class>"))
            for meth, enum_name, declared in (("family", "PacketFamily", decl.family), ("action", "PacketAction", decl.action)):
                mi = ci.methods.get(meth)
                ev = self.spec.enums[enum_name].by_name(declared) if enum_name in self.spec.enums else None
                want = ev[2] if ev else None
                ok = False
                if mi is not None and want is not None:
                    body = mi.body()
                    ok = (mi.kind == "static" and len(body) == 1 and isinstance(body[0], ast.Return)
                          and isinstance(body[0].value, ast.Attribute) and isinstance(body[0].value.value, ast.Name)
                          and body[0].value.value.id == enum_name and body[0].value.attr == want)
                ob2(meth, ok, declared, f"{meth}() does not return {enum_name}.{want}")
            mi = ci.methods.get("write")
            ok = False
            if mi is not None:
                body = mi.body()
                ok = (len(body) == 1 and isinstance(body[0], ast.Expr) and isinstance(body[0].value, ast.Call)
                      and ast.unparse(body[0].value) == f"{name}.serialize(writer, self)")
            ob2("write", ok, "serialize-self", "write(writer) is not `<Class>.serialize(writer, self)`")
            ob2("base", any(isinstance(b, ast.Name) and b.id == "Packet" for b in ci.node.bases), "Packet",
                "packet class does not derive from Packet")
        # serialize must not store into data.* nor hand `data` itself to anything but nested serialize
        ser = ci.methods.get("serialize")
        if ser is not None:
            stores = [n for n in ast.walk(ser.node) if isinstance(n, (ast.Assign, ast.AugAssign, ast.AnnAssign))
                      for t in (n.targets if isinstance(n, ast.Assign) else [n.target])
                      if isinstance(t, (ast.Attribute, ast.Subscript)) and "data" in {x.id for x in ast.walk(t) if isinstance(x, ast.Name)}]
            ob("serialize-frame", not stores, "data", "serialize stores into the object being serialized")
        return out


# ================================================================ deserialize
def _verify_deserialize(self, decl):
    from .gen_spec import ParseSpec
    ci = self.class_info(decl)
    fi = ci.methods["deserialize"]
    fields, lengths = field_plan(self.spec, decl)
    ex = self.new_exec(decl)
    ex.current_fi = fi
    name = decl.name
    V = self.V

    def run():
        ex.fname = f"{name}.deserialize"
        r, s0 = self.make_reader(ex)
        if self.ctx_chunked[name]:
            ex.fact(V.CH(s0))       # precondition of a case class declared inside a chunked section
        ps = ParseSpec(ex, V, self.spec, decl, self.ctx_chunked[name])
        want, final = ps.walk(s0)
        robj = ex.obj(r)
        if not ex.covers:
            ex.covers.append((ex.fname + ":cover:entry", list(ex.pc)))
        ex.loop_lists = {a["ins"].name: (a["sort"], a["elem"]) for a in ps.arrays}

        def hook(fr, node, ordn):
            if ordn >= len(ps.arrays):
                raise Unsupported("more loops than arrays in deserialize")
            info = ps.arrays[ordn]
            ins = info["ins"]
            ITER, ELEMS, entry, nn = info["ITER"], info["ELEMS"], info["entry"], info["nn"]
            lname = ins.name
            is_for = isinstance(node, ast.For)
            if is_for != (info["n"] is not None):
                ex.oblige("loop-shape", z3.BoolVal(False), f"loop{ordn}",
                          {"why": "counted loop where the reading rules prescribe read-to-end-of-chunk (or vice versa)",
                           "property": "C03"})
                raise PathEnd()
            cell = {"k": I(0)}

            def idx(fr2):
                return fr2.env[node.target.id] if is_for else cell["k"]

            def cur_list(ex2, fr2):
                v = fr2.env.get(lname)
                o = ex2.heap.get(v.id) if isinstance(v, Ref) else None
                if isinstance(o, EmptyList):
                    return z3.Empty(info["sort"])
                if isinstance(o, ZSeq):
                    return o.t
                raise Unsupported(f"list variable {lname} not found at loop head")

            def inv(ex2, fr2):
                i = idx(fr2)
                ro = ex2.obj(fr2.env["reader"])
                out = [("state", ro.fields["st"] == ITER(entry, nn, i)),
                       ("elements", cur_list(ex2, fr2) == ELEMS(entry, nn, i)),
                       ("mode", V.CH(ro.fields["st"]) == V.CH(entry)),
                       ("measure", V.lex_le(ro.fields["st"], entry))]
                if not is_for:
                    j = z3.Int("j!w")
                    out.append(("earlier-nonempty", z3.ForAll([j], z3.Implies(z3.And(0 <= j, j < i),
                                V.REM(ITER(entry, nn, j)) > 0), patterns=[ITER(entry, nn, j)])))
                    out.append(("k-nonneg", i >= 0))
                return out

            def on_head(ex2, fr2):
                if not is_for:
                    cell["k"] = ex2.fresh("k")
                ps.unfold(info, idx(fr2))

            def on_step(ex2, fr2):
                if not is_for:
                    cell["k"] = cell["k"] + 1
            spec = {"z3inv": inv, "on_head": on_head, "on_step": on_step}
            if not is_for:
                # termination measure: the lexicographic pair (data beyond the chunk start, data beyond the
                # position) - next_chunk advances the chunk start (and may move the position BACKWARDS),
                # reads advance the position only
                spec["variant"] = lambda ex2, fr2: (V.CSR(ex2.obj(fr2.env["reader"]).fields["st"]),
                                                    V.TOT(ex2.obj(fr2.env["reader"]).fields["st"]))
            return spec
        ex.loop_hook = hook
        fr = Frame(fi, fi.module, {"reader": r})
        ex.frames = []
        ch0 = V.CH(s0)
        try:
            try:
                ex.exec_block(fi.body(), fr)
                ret = NONE
            except ReturnSig as rs:
                ret = rs.value
        except PyExc as e:
            line = getattr(e.node, "lineno", 0)
            if e.cls not in ALLOWED_DES_EXC:
                ex.oblige("no-exc", z3.BoolVal(False), f"{e.cls}@L{line}",
                          {"why": f"{e.cls} escapes from deserialize (only the documented ValueError may)",
                           "property": "C03"})
            ex.oblige("mode-restored-on-raise", V.CH(ex.obj(r).fields["st"]) == ch0, f"{e.cls}@L{line}",
                      {"why": "chunked reading mode not restored when deserialize raises", "property": "C15"})
            return
        ex.oblige("mode-restored", V.CH(ex.obj(r).fields["st"]) == ch0, "normal",
                  {"why": "chunked reading mode after deserialize differs from the mode on entry", "property": "C15"})
        o = ex.obj(ret)
        if o is None:
            ex.oblige("result", z3.BoolVal(False), "object", {"why": "deserialize does not return an instance"})
            return
        for fd in fields:
            got = o.fields.get("_" + fd["name"])
            exp = want.get(fd["name"])
            if got is None or exp is None:
                ex.oblige("parse", z3.BoolVal(False), fd["name"], {"why": "field missing in the result", "property": "C03"})
                continue
            inner = got.val if isinstance(got, MaybeV) else got
            if isinstance(inner, ZSeq) and inner.mutable:
                ex.oblige("immutable-field", z3.BoolVal(False), fd["name"],
                          {"why": f"deserialized field {fd['name']} holds a mutable bytearray reachable through its getter",
                           "property": "C19"})
            ex.oblige("parse", self.same_value_opt(got, exp), fd["name"],
                      {"why": f"field {fd['name']} differs from what the reading rules prescribe", "property": "C03"})
        bs = o.fields.get("_byte_size")
        ex.oblige("byte-size", bs == V.POS(final) - V.POS(s0) if bs is not None and is_int(bs) else z3.BoolVal(False),
                  "normal", {"why": "byte_size differs from the number of bytes consumed", "property": "C03"})
        # the summary every caller of this deserializer assumes (GenExec.nested_deserialize)
        fs = ex.obj(r).fields["st"]
        ex.oblige("summary", z3.And(V.lex_le(fs, s0), V.state_ok(ex, fs)),
                  "measure", {"why": "deserialize does not keep the reader measure (chunk start, position) from moving back",
                              "property": "C03"})
        if self.progress.get(decl.name):
            pre = V.REM(s0) > 0 if self.progress[decl.name] == "always" else z3.And(V.CH(s0), V.REM(s0) > 0)
            ex.oblige("summary", z3.Implies(pre, V.lex_lt(fs, s0)), "progress",
                      {"why": "deserialize consumes nothing although data remains", "property": "C03"})
        ex.oblige("final-state", ex.obj(r).fields["st"] == V.setch(ex, final, ch0), "normal",
                  {"why": "reader state after deserialize differs from the prescribed one", "property": "C03"})
    ex.explore(run)
    return ex


def _same_value_opt(self, got, exp):
    def norm(v):
        if isinstance(v, MaybeV):
            return v.isnone, v.val
        if v is NONE:
            return z3.BoolVal(True), None
        return z3.BoolVal(False), v
    gi, gv = norm(got)
    ei, evv = norm(exp)
    if gv is None or evv is None:
        return gi == ei if (gv is None and evv is None) else z3.And(gi, ei) if gv is None else z3.And(gi == ei, ei)
    return z3.And(gi == ei, z3.Implies(z3.Not(ei), self.same_value(gv, evv)))


ProgramVerifier.verify_deserialize = _verify_deserialize
ProgramVerifier.same_value_opt = _same_value_opt


# ================================================================ C01 for fixed-size classes (proved)
def _encb(v, j):
    """j-th byte of the EO encoding of v (contracts.spec.ENCB)"""
    if j == 0:
        return v % 253 + 1
    lim = 253 ** j
    return z3.If(v < lim, I(0xFE), (v / lim) % 253 + 1)


def _rt_fixed_plan(self, decl, depth=0):
    """list of leaf slots of a fixed-size class (ints / bools / enums, nested fixed structs, literal-length
    arrays of those), or None when the class is outside this fragment"""
    if depth > 4:
        return None
    slots = []
    for ins in decl.body:
        if ins.tag == "field" and ins.name is not None and ins.value is None and not ins.optional:
            t = X.resolve_type(self.spec, ins.type, ins.length if is_str_type(ins.type) else None)
            if t.kind in ("int", "bool", "enum"):
                slots.append(("leaf", ins.name, t))
            elif t.kind == "struct":
                sub = _rt_fixed_plan(self, t.struct, depth + 1)
                if sub is None:
                    return None
                slots.append(("struct", ins.name, t, sub))
            else:
                return None
        elif ins.tag == "field" and ins.value is not None:
            t = X.resolve_type(self.spec, ins.type, ins.length if is_str_type(ins.type) else None)
            if t.kind not in ("int", "bool"):
                return None
            slots.append(("lit", ins.name, t, ins.value))
        elif ins.tag == "array" and ins.length is not None and ins.length.isdigit() and not ins.optional and not ins.delimited:
            t = X.resolve_type(self.spec, ins.type)
            n = int(ins.length)
            if n > 6:
                return None
            if t.kind in ("int", "enum"):
                slots.append(("array", ins.name, t, n, None))
            elif t.kind == "struct":
                sub = _rt_fixed_plan(self, t.struct, depth + 1)
                if sub is None:
                    return None
                slots.append(("array", ins.name, t, n, sub))
            else:
                return None
        else:
            return None
    return slots


def _verify_roundtrip_fixed(self, decl):
    """RT_T for a fixed-size class: data := the interpreted WIRE_T(obj) of a symbolic VALID object
    (C02 proves the emitted serialize produces exactly these bytes); the emitted deserialize (and,
    inlined, those of nested classes) is executed over a concrete-structured non-chunked reader whose
    operations are the C05 contracts; obligations: every field equals the object's, every byte is
    consumed, byte_size is the number of bytes."""
    plan = _rt_fixed_plan(self, decl)
    if plan is None:
        return None
    ci = self.class_info(decl)
    fi = ci.methods["deserialize"]
    ex = self.new_exec(decl)
    ex.inject_failures = False
    ex.rt_mode = True
    ex.current_fi = fi
    name = decl.name

    def hook(fr, node, ordn):
        return {"unroll": 6}
    ex.loop_hook = hook

    def build(plan, base):
        """(bytes list, expected model) for one object"""
        bs = []
        model = {}
        for slot in plan:
            kind = slot[0]
            if kind == "leaf":
                _, nm, t = slot
                if t.kind == "bool":
                    b = ex.fresh(base + nm, BOOL)
                    v = z3.If(b, I(1), I(0))
                    model[nm] = b
                else:
                    v = ex.fresh(base + nm)
                    ex.fact(z3.And(v >= 0, v < t.limit))        # VALID_T: in range
                    model[nm] = v
                bs += [v] if t.under == "byte" else [_encb(v, j) for j in range(t.width)]
            elif kind == "lit":
                _, nm, t, text = slot
                v = I(int(text)) if t.kind == "int" else I(1 if text == "true" else 0)
                bs += [v] if t.under == "byte" else [_encb(v, j) for j in range(t.width)]
                if nm is not None:
                    model[nm] = v if t.kind == "int" else z3.BoolVal(text == "true")
            elif kind == "struct":
                _, nm, t, sub = slot
                b2, m2 = build(sub, base + nm + ".")
                bs += b2
                model[nm] = m2
            elif kind == "array":
                _, nm, t, n, sub = slot
                items = []
                for k in range(n):
                    if sub is None:
                        v = ex.fresh(f"{base}{nm}[{k}]")
                        ex.fact(z3.And(v >= 0, v < t.limit))
                        bs += [v] if t.under == "byte" else [_encb(v, j) for j in range(t.width)]
                        items.append(v)
                    else:
                        b2, m2 = build(sub, f"{base}{nm}[{k}].")
                        bs += b2
                        items.append(m2)
                model[nm] = items
        return bs, model

    def compare(got, want, path):
        if isinstance(want, dict):
            o = ex.obj(got)
            if o is None:
                ex.oblige("roundtrip", z3.BoolVal(False), path, {"why": "nested object missing", "property": "C01"})
                return
            for k, w in want.items():
                compare(o.fields.get("_" + k), w, path + "." + k)
            return
        if isinstance(want, list):
            z = ex.zseq(got) if got is not None else None
            if z is None:
                ex.oblige("roundtrip", z3.BoolVal(False), path, {"why": "array missing", "property": "C01"})
                return
            ex.oblige("roundtrip", z3.Length(z.t) == len(want), path + ".len",
                      {"why": "array length differs after the round trip", "property": "C01"})
            ex.assume(z3.Length(z.t) == len(want))
            for k, w in enumerate(want):
                el = z.t[k]
                if isinstance(w, dict):
                    raise Unsupported("array of structs comparison needs object elements")
                ex.oblige("roundtrip", el == w, f"{path}[{k}]", {"why": "array element differs after the round trip", "property": "C01"})
            return
        if got is None:
            ex.oblige("roundtrip", z3.BoolVal(False), path, {"why": "field missing", "property": "C01"})
            return
        g = got.val if isinstance(got, MaybeV) else got
        if z3.is_bool(want) and is_int(g):
            g = g != 0
        ex.oblige("roundtrip", g == want, path, {"why": f"field {path} differs after the round trip", "property": "C01"})

    def run():
        ex.fname = f"{name}.roundtrip"
        bs, model = build(plan, "")
        data = ex.lit_terms([simp(b) for b in bs])
        rci = repo.lookup(READER_Q)
        r = ex.alloc(ObjV(rci, {"cdata": ZSeq(data, "int"), "cpos": I(0), "cmode": z3.BoolVal(False)}))
        fr = Frame(fi, fi.module, {"reader": r})
        ex.frames = []
        try:
            try:
                ex.exec_block(fi.body(), fr)
                ret = NONE
            except ReturnSig as rs:
                ret = rs.value
        except PyExc as e:
            ex.oblige("roundtrip", z3.BoolVal(False), f"raises-{e.cls}", {"why": f"{e.cls} while reading back a valid object",
                                                                        "property": "C01"})
            return
        o = ex.obj(ret)
        compare(ret, model, name)
        ro = ex.obj(r)
        ex.oblige("roundtrip", ro.fields["cpos"] == len(bs), "consumed", {"why": "not exactly the written bytes consumed", "property": "C01"})
        ex.oblige("roundtrip", o.fields.get("_byte_size") == len(bs) if o and is_int(o.fields.get("_byte_size")) else z3.BoolVal(False),
                  "byte_size", {"why": "byte_size differs from the number of bytes written", "property": "C01"})
    try:
        ex.explore(run)
    except Unsupported:
        return None
    return ex


def _verify_roundtrip(self, decl):
    from . import gen_rt
    r = gen_rt.verify_roundtrip(self, decl)
    if isinstance(r, tuple):
        raise Unsupported("roundtrip: " + r[1])
    return r


ProgramVerifier.verify_roundtrip = _verify_roundtrip
ProgramVerifier.verify_roundtrip_fixed = _verify_roundtrip_fixed
