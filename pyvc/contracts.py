"""Sidecar contracts: parsed from the `ast` of /verif/contracts/*.py (symbolic use) and imported
natively (runtime use).  One list element of a `requires` / `ensures` / `inv_k` function is one
clause, hence one named obligation."""
import ast
import os
import z3

from . import repo
from .exec import (Exec, Frame, Unsupported, PathEnd, PyExc, ReturnSig, Ref, SeqV, ObjV, NONE, I, INT, BOOL,
                   is_int, is_bool, simp, TupleV, OpaqueV, _preorder, PStr, DictV, PYSTR)

VERIF = os.path.dirname(os.path.dirname(os.path.abspath(__file__)))
repo.add_root("contracts", os.path.join(VERIF, "contracts"))
repo.add_root("lemmas", os.path.join(VERIF, "lemmas"))

PURE_BUILTINS = {"len", "min", "max", "int", "abs", "bytes", "bytearray", "range", "bool", "cast", "isinstance",
                 "memoryview", "tuple", "print"}
PURE_METHODS = {"append", "extend", "reverse", "copy"}


def _literal(node):
    if isinstance(node, ast.Call) and isinstance(node.func, ast.Name) and node.func.id == "dict":
        return {k.arg: _literal(k.value) for k in node.keywords}
    return ast.literal_eval(node)


class Contract:
    def __init__(self, qualname, module, node, is_class=False):
        self.qualname = qualname
        self.module = module
        self.node = node
        self.is_class = is_class
        self.fns = {}
        self.attrs = {}
        for n in node.body:
            if isinstance(n, ast.FunctionDef):
                self.fns[n.name] = n
            elif isinstance(n, ast.Assign) and len(n.targets) == 1 and isinstance(n.targets[0], ast.Name):
                self.attrs[n.targets[0].id] = _literal(n.value)
        self.inline = bool(self.attrs.get("inline", False))
        self.sorts = self.attrs.get("sorts", {})
        self.modifies = self.attrs.get("modifies", [])
        self.raises_modifies = self.attrs.get("raises_modifies", [])
        self.uses_invariant = self.attrs.get("uses_invariant", None)
        self.fields = self.attrs.get("fields", {})
        self.abstract_props = self.attrs.get("abstract_props", {})
        self.unroll = self.attrs.get("unroll", {})
        self.trusted = self.attrs.get("trusted", False)       # external: used, never verified
        self.fresh_result = self.attrs.get("fresh_result", True)
        self.allow_self_inline = False
        self.property_ids = self.attrs.get("properties", [])
        self.split = self.attrs.get("split", [])

    def clauses(self, which):
        fn = self.fns.get(which)
        if fn is None:
            return [], []
        body = [s for s in fn.body if not (isinstance(s, ast.Expr) and isinstance(s.value, ast.Constant))]
        if len(body) != 1 or not isinstance(body[0], ast.Return):
            raise Unsupported(f"contract {self.qualname}.{which}: body must be a single return")
        v = body[0].value
        params = [a.arg for a in fn.args.args]
        if isinstance(v, ast.List):
            return list(v.elts), params
        if isinstance(v, ast.Dict):
            return [(k.id if isinstance(k, ast.Name) else ast.unparse(k), val) for k, val in zip(v.keys, v.values)], params
        return [v], params

    def loop(self, ordn):
        inv = self.fns.get(f"inv_{ordn}")
        unroll = self.unroll.get(ordn)
        if inv is None and unroll is None:
            return None
        return {"inv": f"inv_{ordn}" if inv is not None else None,
                "variant": f"variant_{ordn}" if f"variant_{ordn}" in self.fns else None,
                "exit": f"exit_{ordn}" if f"exit_{ordn}" in self.fns else None,
                "unroll": unroll, "contract": self}


class LoopSpec(dict):
    pass


class Registry:
    def __init__(self, contract_modules):
        self.contracts = {}
        self.class_contracts = {}
        self.lemmas = {}
        self.current = None
        self.inline_ok = set()
        self.force_inline = set()
        self.externals = {}
        self.E = z3.Function("E_cp1252", INT, INT)     # code point -> byte   (external codec table)
        self.D = z3.Function("D_cp1252", INT, INT)     # byte -> code point
        c = z3.Int("c!ax")
        self.axioms = [
            z3.ForAll([c], z3.And(self.E(c) >= 0, self.E(c) <= 255), patterns=[self.E(c)]),
            z3.ForAll([c], z3.And(self.D(c) >= 0, self.D(c) <= 0x10FFFF), patterns=[self.D(c)]),
        ]
        self.modules = []
        self.externals["random.randrange"] = _ext_randrange
        for name in contract_modules:
            self.load(name)

    @staticmethod
    def _const_str(node, m):
        if isinstance(node, ast.Constant):
            return node.value
        if isinstance(node, ast.Name) and node.id in m.assigns:
            return Registry._const_str(m.assigns[node.id], m)
        if isinstance(node, ast.BinOp) and isinstance(node.op, ast.Add):
            return Registry._const_str(node.left, m) + Registry._const_str(node.right, m)
        raise Unsupported("contract name must be a constant string expression")

    def load(self, name):
        m = repo.load_module(name)
        if m is None:
            raise KeyError(f"contract module {name} not found")
        self.modules.append(m)
        for node in m.tree.body:
            if isinstance(node, ast.ClassDef):
                for d in node.decorator_list:
                    if isinstance(d, ast.Call) and isinstance(d.func, ast.Name) and d.args:
                        q = self._const_str(d.args[0], m)
                        if d.func.id == "contract":
                            self.contracts[q] = Contract(q, m, node)
                        elif d.func.id == "class_contract":
                            self.class_contracts[q] = Contract(q, m, node, is_class=True)
            elif isinstance(node, ast.FunctionDef):
                for d in node.decorator_list:
                    if isinstance(d, ast.Call) and isinstance(d.func, ast.Name) and d.func.id == "lemma":
                        self.lemmas[m.name + "." + node.name] = (m.functions[node.name], d)
            elif isinstance(node, ast.Assign) and len(node.targets) == 1 and isinstance(node.targets[0], ast.Name):
                if node.targets[0].id == "INLINE":
                    self.inline_ok |= set(ast.literal_eval(node.value))

    # ---- queries used by the executor
    def get(self, qualname):
        return self.contracts.get(qualname)

    def class_contract(self, ci):
        for c in ci.mro():
            if c.qualname in self.class_contracts:
                return self.class_contracts[c.qualname]
        return None

    def kinds_of(self, obj_cls, test_cls):
        """for abstract kind-tagged objects (the generator's Type hierarchy): the kind tags that are
        instances of test_cls, from the class contract's `kinds` table"""
        cc = self.class_contract(obj_cls)
        if cc is None:
            return None
        table = cc.attrs.get("kinds")
        if table is None:
            return None
        return table.get(test_cls.qualname, table.get(test_cls.name))

    def is_spec_module(self, name):
        return name == "contracts" or name.startswith("contracts.")

    def may_inline(self, fi):
        if fi.qualname in self.inline_ok:
            return True
        if fi.module.name.startswith("lemmas."):
            return True
        if fi.name in ("__init__", "__len__") or fi.kind in ("property",):
            return True
        return False

    def external(self, name):
        return self.externals.get(name)

    def call_is_pure_syntactic(self, call):
        f = call.func
        if isinstance(f, ast.Name):
            return f.id in PURE_BUILTINS
        if isinstance(f, ast.Attribute):
            return f.attr in PURE_METHODS
        return False

    def call_mutates_syntactic(self, call, fr, ex):
        f = call.func
        out = []
        if isinstance(f, ast.Attribute) and f.attr in ("append", "extend", "reverse") and not (
                isinstance(f.value, ast.Name) and f.value.id == "writer"):
            try:
                v = ex.ev(f.value, fr)
            except Exception:
                v = None
            if ex.seq(v) is not None:
                out.append((ast.unparse(f.value), f.attr == "reverse"))
                return out
        try:
            saved = (len(ex.pc), dict(ex.obls), list(ex.order))
            fv = ex.ev(f, fr)
        except Exception:
            return out
        finally:
            del ex.pc[saved[0]:]
        from .exec import FuncV
        if isinstance(fv, FuncV):
            con = self.get(fv.fi.qualname)
            if con is None:
                if fv.fi.kind == "property":
                    return out
                raise Unsupported(f"loop body calls {fv.fi.qualname} without contract")
            params = fv.fi.params
            argmap = {}
            args = list(call.args)
            if fv.recv is not None:
                argmap[params[0]] = f.value
                params = params[1:]
            for p, a in zip(params, args):
                argmap[p] = a
            for k in call.keywords:
                argmap[k.arg] = k.value
            for path in con.modifies:
                parts = path.split(".")
                if parts[0] not in argmap:
                    continue
                base = ast.unparse(argmap[parts[0]])
                full = ".".join([base] + parts[1:])
                # field holding an int/bool -> attribute havoc; holding a sequence -> contents havoc
                try:
                    cur = ex.ev(ast.parse(full, mode="eval").body, fr)
                except Exception:
                    cur = None
                if isinstance(cur, Ref) and ex.seq(cur) is not None:
                    out.append((full, False))
                elif len(parts) > 1:
                    out.append(("." + full, False))
        return out

    def contract_for_frame(self, fr):
        if fr.fi is None:
            return None
        con = self.contracts.get(fr.fi.qualname)
        if con is None and fr.fi.qualname in self.lemmas:
            return self.lemma_contract(fr.fi)
        return con

    def lemma_contract(self, fi):
        # loop invariants of a lemma function live in a sibling class `<name>_loops`
        node = None
        for n in fi.module.tree.body:
            if isinstance(n, ast.ClassDef) and n.name == fi.name + "_loops":
                node = n
        if node is None:
            return None
        return Contract(fi.qualname, fi.module, node)

    # ---- clause evaluation
    def clause_frame(self, con, params, scope, ex):
        env = {}
        for p in params:
            if p not in scope:
                raise Unsupported(f"contract {con.qualname}: clause parameter {p} not in scope")
            env[p] = scope[p]
        return Frame(None, con.module, env, spec=True)

    def loop_clauses(self, ex, spec, fr):
        con = spec["contract"]
        if spec["inv"] is None:
            return []
        clauses, params = con.clauses(spec["inv"])
        scope = dict(ex.entry_scope)
        scope.update(fr.env)
        cfr = self.clause_frame(con, params, scope, ex)
        return [(c, cfr) for c in clauses]

    def loop_variant(self, ex, spec, fr):
        if spec is None or spec.get("variant") is None:
            return None
        if callable(spec["variant"]):
            return spec["variant"](ex, fr)
        con = spec["contract"]
        clauses, params = con.clauses(spec["variant"])
        scope = dict(ex.entry_scope)
        scope.update(fr.env)
        return ex.as_int(ex.ev(clauses[0], self.clause_frame(con, params, scope, ex)))

    # ---- sorts
    def sort_of_param(self, con, fi, p):
        if con is not None and p in con.sorts:
            return con.sorts[p]
        if p == "self" and fi.cls is not None:
            return fi.cls.qualname
        ann = fi.annotation(p)
        if ann is None:
            return "int"
        return self.norm_sort(ann, fi.module)

    def norm_sort(self, ann, module):
        ann = ann.strip("'\"")
        if ann in ("int", "bool", "bytes", "bytearray", "str", "memoryview", "None", "pystr", "dict", "opaque") \
                or ann.startswith("record("):
            return ann
        if ann.startswith("Optional["):
            return "Optional[" + self.norm_sort(ann[9:-1], module) + "]"
        ci = repo.resolve_class(module, ann)
        if ci is not None:
            return ci.qualname
        raise Unsupported(f"sort of annotation {ann}")

    def result_sort(self, con, fi):
        if con is not None and "result" in con.sorts:
            return con.sorts["result"]
        r = fi.node.returns
        if r is None:
            return "None"
        return self.norm_sort(ast.unparse(r), fi.module)

    def fresh_of_sort(self, ex, sort, base, assume_inv=True):
        if sort == "int":
            return ex.fresh(base)
        if sort == "nat":
            v = ex.fresh(base)
            ex.pc.append(v >= 0)
            return v
        if sort == "bool":
            return ex.fresh(base, BOOL)
        if sort == "None":
            return NONE
        if sort == "pystr":
            return PStr(ex.fresh(base, PYSTR))
        if sort == "dict":
            n = next(ex.counter)
            return DictV(z3.Function(f"IN_{base}!{n}", PYSTR, BOOL), z3.Function(f"VAL_{base}!{n}", PYSTR, BOOL))
        if sort == "opaque":
            return OpaqueV(base)
        if sort.startswith("record("):
            flds = {}
            body = sort[7:-1].strip()
            ref = ex.alloc(ObjV(None, flds))
            for part in [p for p in body.split(",") if p.strip()]:
                k, v = part.split("=")
                flds[k.strip()] = self.fresh_of_sort(ex, v.strip(), f"{base}.{k.strip()}", assume_inv)
            return ref
        if sort in ("bytes", "bytearray", "str", "memoryview", "list", "tuple"):
            return ex.alloc(ex.fresh_seq(sort, base))
        if sort.startswith("Optional["):
            if ex.choose(2) == 0:
                return NONE
            return self.fresh_of_sort(ex, sort[9:-1], base, assume_inv)
        ci = repo.lookup(sort)
        cc = self.class_contract(ci)
        if cc is None:
            raise Unsupported(f"no class contract for {sort}")
        flds = {}
        ref = ex.alloc(ObjV(ci, flds))
        for fname, fsort in cc.fields.items():
            flds[fname] = self.fresh_of_sort(ex, fsort, f"{base}.{fname}", assume_inv)
        for fname, fsort in cc.abstract_props.items():
            flds[fname] = self.fresh_of_sort(ex, fsort, f"{base}.{fname}", assume_inv)
        if assume_inv:
            self.assume_class_invariant(ex, ref)
        return ref

    def class_invariant_clauses(self, ex, ref):
        o = ex.obj(ref)
        if o is None:
            return []
        cc = self.class_contract(o.cls)
        if cc is None or "invariant" not in cc.fns:
            return []
        clauses, params = cc.clauses("invariant")
        cfr = self.clause_frame(cc, params, {params[0]: ref}, ex)
        return [(c, cfr) for c in clauses]

    def assume_class_invariant(self, ex, ref):
        for c, cfr in self.class_invariant_clauses(ex, ref):
            ex.assume(ex.truth(ex.ev(c, cfr)))

    # ---- snapshots for old_*
    def snap(self, ex, v, memo=None):
        memo = {} if memo is None else memo
        if isinstance(v, Ref):
            if v.id in memo:
                return memo[v.id]
            o = ex.heap[v.id]
            if isinstance(o, SeqV):
                r = ex.alloc(o)
                memo[v.id] = r
                return r
            r = ex.alloc(ObjV(o.cls, {}))
            memo[v.id] = r
            for k, fv in o.fields.items():
                ex.heap[r.id].fields[k] = self.snap(ex, fv, memo)
            return r
        return v

    # ---- applying a contract at a call site
    def apply_contract(self, ex, con, fi, env, fr, node):
        line = getattr(node, "lineno", 0)
        scope = dict(env)
        recv = env.get("self") if fi.kind in ("method", "setter", "property") else None
        clauses, params = con.clauses("requires")
        for idx, c in enumerate(clauses):
            t = ex.truth(ex.ev(c, self.clause_frame(con, params, scope, ex)))
            ex.oblige("call-pre", t, f"{fi.name}@L{line}[{idx}]", {"clause": ast.unparse(c)})
            ex.assume(t)
        uses_inv = con.uses_invariant
        if uses_inv is None:
            uses_inv = recv is not None and not fi.name.startswith("_")
        if uses_inv and recv is not None and fi.name != "__init__":
            for idx, (c, cfr) in enumerate(self.class_invariant_clauses(ex, recv)):
                t = ex.truth(ex.ev(c, cfr))
                ex.oblige("call-pre-inv", t, f"{fi.name}@L{line}[{idx}]", {"clause": ast.unparse(c)})
                ex.assume(t)
        memo = {}
        for k, v in env.items():
            scope["old_" + k] = self.snap(ex, v, memo)
        mclauses, mparams = con.clauses("must_raise")
        partial = con.attrs.get("opaque_calls") == "mayraise" and not con.clauses("raises")[0]
        if mclauses or partial:
            # one-directional contract: a normal return implies none of the conditions held on entry;
            # the call may also fail for reasons the contract does not describe (a contract whose calls are
            # opaque and may raise, and that has no `raises` clause, speaks of normal returns only)
            conds = [simp(ex.truth(ex.ev(c, self.clause_frame(con, mparams, scope, ex)))) for exc, c in mclauses]
            if ex.choose(2) == 1:
                for path in con.modifies:
                    self.havoc_path(ex, path, env)
                raise PyExc(mclauses[0][0] if mclauses and ex.choose(2) == 0 else "OpaqueFailure", node)
            for t in conds:
                ex.assume(z3.Not(t))
        rclauses, rparams = con.clauses("raises")
        live = []
        for exc, c in rclauses:
            t = simp(ex.truth(ex.ev(c, self.clause_frame(con, rparams, scope, ex))))
            if not z3.is_false(t):
                live.append((exc, t))
        if live:
            k = ex.choose(1 + len(live))
            if k > 0:
                exc, t = live[k - 1]
                ex.assume(t)
                if not ex.feasible():
                    raise PathEnd()
                for path in con.raises_modifies:
                    self.havoc_path(ex, path, env)
                raise PyExc(exc, node)
            for exc, t in live:
                ex.assume(z3.Not(t))
            if not ex.feasible():
                raise PathEnd()
        for path in con.modifies:
            self.havoc_path(ex, path, env)
        rs = self.result_sort(con, fi)
        if fi.name == "__init__":
            res = NONE
            cc = self.class_contract(fi.cls)
            o = ex.obj(env["self"])
            for fname, fsort in (cc.fields.items() if cc else []):
                o.fields[fname] = self.fresh_of_sort(ex, fsort, f"new.{fname}", assume_inv=False)
        else:
            res = self.fresh_of_sort(ex, rs, f"{fi.name}_res", assume_inv=False)
        scope["result"] = res
        eclauses, eparams = con.clauses("ensures")
        for c in eclauses:
            if isinstance(c, ast.Compare) and len(c.ops) == 1 and isinstance(c.ops[0], ast.Is) \
                    and isinstance(c.left, ast.Attribute):
                # `obj.field is x` in a callee post binds the reference-valued field
                cfr = self.clause_frame(con, eparams, scope, ex)
                base = ex.obj(ex.ev(c.left.value, cfr))
                val = ex.ev(c.comparators[0], cfr)
                if base is not None and isinstance(val, Ref):
                    base.fields[c.left.attr] = val
                    continue
            ex.assume(ex.truth(ex.ev(c, self.clause_frame(con, eparams, scope, ex))))
        if uses_inv and recv is not None or fi.name == "__init__":
            self.assume_class_invariant(ex, env.get("self"))
        if isinstance(res, Ref) and ex.obj(res) is not None:
            self.assume_class_invariant(ex, res)
        return res

    def havoc_path(self, ex, path, env):
        parts = path.split(".")
        v = env.get(parts[0])
        if v is None:
            raise Unsupported(f"modifies path {path}")
        holder = None
        for p in parts[1:]:
            o = ex.obj(v)
            if o is None:
                raise Unsupported(f"modifies path {path}")
            holder = (o, p)
            v = o.fields.get(p)
        if isinstance(v, Ref) and ex.seq(v) is not None:
            ex.heap[v.id] = ex.fresh_seq(ex.seq(v).kind, path.replace(".", "_"))
        elif holder is not None and (is_int(v) or v is None):
            holder[0].fields[holder[1]] = ex.fresh(path.replace(".", "_"))
        elif holder is not None and is_bool(v):
            holder[0].fields[holder[1]] = ex.fresh(path.replace(".", "_"), BOOL)
        elif holder is not None and isinstance(v, Ref) and ex.obj(v) is not None:
            holder[0].fields[holder[1]] = self.fresh_of_sort(ex, ex.obj(v).cls.qualname, path.replace(".", "_"))
        else:
            raise Unsupported(f"cannot havoc {path}")


def _ext_randrange(ex, args, kwargs, fr, node):
    """External: random.randrange(lo, hi) raises unless lo < hi (so 'generation never fails' is the
    call-pre obligation) and otherwise returns an arbitrary r with lo <= r < hi - every outcome of
    every draw is covered."""
    if len(args) != 2:
        raise Unsupported("randrange arity")
    lo, hi = ex.as_int(args[0]), ex.as_int(args[1])
    ex.oblige("call-pre", lo < hi, f"randrange@L{node.lineno}", {"clause": "lo < hi (else randrange raises)"})
    ex.assume(lo < hi)
    r = ex.fresh("randrange")
    ex.pc.append(z3.And(lo <= r, r < hi))
    ex.assumptions_used.add("random.randrange(lo, hi): external; contract lo < hi required, result arbitrary in [lo, hi)")
    return r


class Verifier:
    """Generates the obligations of one function against its own contract (or of one lemma)."""

    def __init__(self, registry):
        self.reg = registry

    def new_exec(self):
        return Exec(self.reg)

    def reachable_mutables(self, ex, env):
        out = []
        seen = set()

        def walk(path, v):
            if isinstance(v, Ref):
                if v.id in seen:
                    return
                seen.add(v.id)
                o = ex.heap[v.id]
                if isinstance(o, SeqV):
                    if o.kind in ("bytearray", "list"):
                        out.append((path, "seq", v))
                else:
                    for k, fv in sorted(o.fields.items()):
                        if isinstance(fv, Ref):
                            out.append((path + "." + k, "fieldref", (v, k)))
                            walk(path + "." + k, fv)
                        else:
                            out.append((path + "." + k, "field", (v, k)))
        for k, v in env.items():
            walk(k, v)
        return out

    def check_frame(self, ex, con, params_env, old_scope, allowed, kind):
        """Everything reachable from the parameters at entry and not listed in `allowed` is unchanged."""
        memo_old = old_scope
        for path, what, loc in self._entry_mutables:
            if any(path == a or path.startswith(a + ".") for a in allowed):
                continue
            oldv = self._old_lookup(ex, path, old_scope)
            if what == "seq":
                cur = ex.heap[loc.id]
                old = ex.heap[oldv.id] if isinstance(oldv, Ref) else None
                if old is None or cur is old:
                    continue
                ex.oblige(kind, ex.seq_eq(cur, old), path)
            elif what == "field":
                ref, k = loc
                cur = ex.heap[ref.id].fields.get(k)
                if cur is oldv:
                    continue
                if (is_int(cur) or is_bool(cur)) and (is_int(oldv) or is_bool(oldv)):
                    if cur.eq(oldv):
                        continue
                    ex.oblige(kind, cur == oldv, path)
                elif cur is NONE and oldv is NONE:
                    continue
                else:
                    ex.oblige(kind, z3.BoolVal(False), path)
            elif what == "fieldref":
                ref, k = loc
                cur = ex.heap[ref.id].fields.get(k)
                orig = self._entry_refs.get(path)
                if not (isinstance(cur, Ref) and orig is not None and cur.id == orig):
                    # field rebound to another object: compare contents if both are sequences
                    cs = ex.seq(cur)
                    os_ = ex.seq(oldv)
                    if cs is not None and os_ is not None:
                        ex.oblige(kind, ex.seq_eq(cs, os_), path)
                    else:
                        ex.oblige(kind, z3.BoolVal(False), path)

    def _old_lookup(self, ex, path, old_scope):
        parts = path.split(".")
        v = old_scope["old_" + parts[0]]
        for p in parts[1:]:
            v = ex.heap[v.id].fields.get(p)
        return v

    def verify_function(self, con, ex=None):
        fi = repo.lookup(con.qualname)
        ex = ex or self.new_exec()
        reg = self.reg
        short = con.qualname.split(".", 1)[1] if con.qualname.startswith("eolib.") else con.qualname
        short = con.qualname
        is_init = fi.name == "__init__"
        uses_inv = con.uses_invariant
        if uses_inv is None:
            uses_inv = fi.kind in ("method", "setter", "property") and not fi.name.startswith("_")

        if getattr(fi, "foreign_decorators", None):
            raise Unsupported(f"{fi.qualname} is wrapped by decorator(s) {fi.foreign_decorators}: semantics not modelled")

        def run():
            ex.fname = short
            reg.current = con
            env = {}
            for p in fi.params:
                sort = reg.sort_of_param(con, fi, p)
                if p == "self" and is_init:
                    env[p] = ex.alloc(ObjV(fi.cls, {}))
                else:
                    env[p] = reg.fresh_of_sort(ex, sort, p, assume_inv=(p != "self" or uses_inv))
            scope = dict(env)
            clauses, params = con.clauses("requires")
            for c in clauses:
                ex.assume(ex.truth(ex.ev(c, reg.clause_frame(con, params, scope, ex))))
            if not ex.feasible():
                raise PathEnd()
            memo = {}
            old = {"old_" + k: reg.snap(ex, v, memo) for k, v in env.items()}
            scope.update(old)
            ex.entry_scope = dict(old)
            if con.split and not getattr(ex, "split_terms", None):
                sfr = Frame(None, con.module, dict(env), spec=True)
                ex.split_terms = [(ex.as_int(ex.ev(ast.parse(e, mode="eval").body, sfr)), n) for e, n in con.split]
            self._entry_mutables = self.reachable_mutables(ex, env)
            self._entry_refs = {}
            for path, what, loc in self._entry_mutables:
                if what == "fieldref":
                    r, k = loc
                    self._entry_refs[path] = ex.heap[r.id].fields[k].id
            rclauses, rparams = con.clauses("raises")
            rconds = [(exc, ex.truth(ex.ev(c, reg.clause_frame(con, rparams, scope, ex)))) for exc, c in rclauses]
            mclauses, mparams = con.clauses("must_raise")
            mconds = [(exc, ex.truth(ex.ev(c, reg.clause_frame(con, mparams, scope, ex)))) for exc, c in mclauses]
            fr = Frame(fi, fi.module, dict(env))
            ex.frames = []
            try:
                try:
                    ex.exec_block(fi.body(), fr)
                    ret = NONE
                except ReturnSig as r:
                    ret = r.value
            except PyExc as e:
                allowed = [t for exc, t in rconds if exc == e.cls]
                line = getattr(e.node, "lineno", 0)
                if mclauses or e.cls == "OpaqueFailure" or \
                        (con.attrs.get("opaque_calls") == "mayraise" and not rclauses):
                    # must_raise contracts do not restrict which exceptions may escape
                    ex.covers.append((short + ":cover:raise-" + e.cls, list(ex.pc)))
                    return
                if not allowed:
                    ex.oblige("no-exc", z3.BoolVal(False), f"{e.cls}@L{line}",
                              {"why": f"{e.cls} can escape but the contract does not allow it"})
                else:
                    ex.oblige("raises", z3.Or(*allowed), f"{e.cls}@L{line}",
                              {"why": f"{e.cls} raised although its condition does not hold"})
                self.check_frame(ex, con, env, scope, con.raises_modifies, "exc-frame")
                if uses_inv and not is_init:
                    for idx, (c, cfr) in enumerate(reg.class_invariant_clauses(ex, env["self"])):
                        ex.oblige("inv-exit-exc", ex.truth(ex.ev(c, cfr)), f"[{idx}]", {"clause": ast.unparse(c)})
                ex.covers.append((short + ":cover:raise-" + e.cls, list(ex.pc)))
                return
            # normal exit
            for exc, t in mconds:
                ex.oblige("must-raise", z3.Not(t), exc,
                          {"why": f"returned normally although the rule demands {exc}", "clause": None})
            for exc, t in rconds:
                ex.oblige("raises-iff", z3.Not(t), exc,
                          {"why": f"returned normally although the condition for {exc} holds"})
            scope2 = dict(scope)
            scope2["result"] = ret
            eclauses, eparams = con.clauses("ensures")
            for idx, c in enumerate(eclauses):
                t = ex.truth(ex.ev(c, reg.clause_frame(con, eparams, scope2, ex)))
                ex.oblige("post", t, f"[{idx}]", {"clause": ast.unparse(c)})
            if uses_inv or is_init:
                for idx, (c, cfr) in enumerate(reg.class_invariant_clauses(ex, env["self"])):
                    ex.oblige("inv-exit", ex.truth(ex.ev(c, cfr)), f"[{idx}]", {"clause": ast.unparse(c)})
            self.check_frame(ex, con, env, scope, con.modifies, "frame")
            ex.covers.append((short + ":cover:normal", list(ex.pc)))

        ex.explore(run)
        reg.current = None
        if con.split:
            self.apply_split(ex)
        return ex

    def apply_split(self, ex):
        """Case split hint: every obligation is proved once per combination of residues, with the
        split terms substituted by their values; exhaustiveness of the split is its own obligation."""
        import itertools
        from .exec import Obligation
        terms = ex.split_terms
        new = []
        for ob in ex.order:
            g = simp(ob.goal)
            if z3.is_true(g):
                new.append(ob)
                continue
            for combo in itertools.product(*[range(n) for _, n in terms]):
                sub = [(t, I(v)) for (t, _), v in zip(terms, combo)]
                assum = [simp(z3.substitute(a, *sub)) for a in ob.assumptions]
                assum += [t == v for (t, v) in sub]
                new.append(Obligation(ob.name + "#case" + "_".join(map(str, combo)), ob.kind, assum,
                                      simp(z3.substitute(ob.goal, *sub)), ob.info, ob.fn))
            exh = z3.And(*[z3.And(0 <= t, t < n) for t, n in terms])
            new.append(Obligation(ob.name + "#split-exhaustive", "split", list(ob.assumptions), exh,
                                  {"clause": "the case split covers every value"}, ob.fn))
        ex.order = new

    def verify_lemma(self, qualname, ex=None):
        fi, deco = self.reg.lemmas[qualname]
        ex = ex or self.new_exec()
        reg = self.reg

        def run():
            ex.fname = qualname
            env = {}
            for p in fi.params:
                ann = fi.annotation(p)
                sort = reg.norm_sort(ann, fi.module) if ann else "int"
                env[p] = reg.fresh_of_sort(ex, sort, p)
            ex.entry_scope = {}
            memo = {}
            ex.entry_scope = {"old_" + k: reg.snap(ex, v, memo) for k, v in env.items()}
            fr = Frame(fi, fi.module, dict(env))
            try:
                ex.exec_block(fi.body(), fr)
            except ReturnSig:
                pass
            except PyExc as e:
                ex.oblige("no-exc", z3.BoolVal(False), f"{e.cls}@L{getattr(e.node, 'lineno', 0)}",
                          {"why": f"{e.cls} escapes from lemma body"})
                return
            ex.covers.append((qualname + ":cover:end", list(ex.pc)))
        ex.explore(run)
        return ex
