"""Names used inside contract / lemma files.  Natively these are thin: the decorators register
the class / function, `requires` skips a lemma instance outside its domain, `ensures`/`check`
assert.  Symbolically the engine interprets the same source text (pyvc.exec / pyvc.contracts)."""
import os
import sys
import types

CONTRACTS = {}
CLASS_CONTRACTS = {}
LEMMAS = {}


class SkipInstance(Exception):
    pass


class LemmaFailed(AssertionError):
    pass


def contract(qualname):
    def deco(cls):
        CONTRACTS[qualname] = cls
        return cls
    return deco


def class_contract(qualname):
    def deco(cls):
        CLASS_CONTRACTS[qualname] = cls
        return cls
    return deco


def lemma(*props, **kw):
    def deco(fn):
        LEMMAS[fn.__module__ + "." + fn.__name__] = (fn, props, kw)
        return fn
    return deco


def requires(c):
    if not c:
        raise SkipInstance()


def ensures(c):
    if not c:
        raise LemmaFailed("ensures")


def check(c):
    if not c:
        raise LemmaFailed("check")


def implies(a, b):
    return (not a) or b


def trigger(*args):
    """Explicit quantifier trigger (proof hint).  Natively: True."""
    return True


def ghost_copy(x):
    return x.copy() if hasattr(x, "copy") else x


def load_repo_packages(repo=None):
    """Make the repository's real modules importable without executing eolib/__init__.py (which
    needs the generated package that this checkout does not have): a stub parent package whose
    __path__ is the real directory.  The files executed are the repository's, unmodified."""
    repo = repo or os.environ.get("VERIF_REPO", "/repo")
    for k in [k for k in sys.modules if k == "eolib" or k.startswith("eolib.") or
              k == "protocol_code_generator" or k.startswith("protocol_code_generator.")]:
        del sys.modules[k]
    m = types.ModuleType("eolib")
    m.__path__ = [os.path.join(repo, "src", "eolib")]
    sys.modules["eolib"] = m
    for sub in ("data", "encrypt", "packet", "protocol"):
        sm = types.ModuleType("eolib." + sub)
        sm.__path__ = [os.path.join(repo, "src", "eolib", sub)]
        sys.modules["eolib." + sub] = sm
        setattr(m, sub, sm)
    if repo not in sys.path:
        sys.path.insert(0, repo)
    return m
