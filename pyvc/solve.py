"""Discharging obligations: z3 (python API) in a fork()ed 16-process pool, one obligation per
task; optional cross-check of the same query (SMT-LIB2 text) on the cvc5 and z3-4.8 CLIs."""
import multiprocessing as mp
import os
import subprocess
import tempfile
import time
import z3

_OBLS = []
_AXIOMS = []
_COVERS = []


def _model_values(m, ob):
    out = {}
    try:
        for d in m.decls():
            name = d.name()
            if "!" not in name and not name.startswith("k!"):
                pass
            if d.arity() == 0:
                v = m[d]
                if z3.is_int_value(v):
                    out[name] = v.as_long()
                elif z3.is_true(v) or z3.is_false(v):
                    out[name] = z3.is_true(v)
                elif z3.is_array(d()) or isinstance(v, (z3.QuantifierRef, z3.ArrayRef)) or z3.is_as_array(v):
                    # evaluate the first 48 cells
                    cells = []
                    for k in range(48):
                        c = m.eval(z3.Select(d(), z3.IntVal(k)), model_completion=True)
                        cells.append(c.as_long() if z3.is_int_value(c) else None)
                    out[name] = cells
    except Exception as e:  # model extraction is best effort
        out["__error__"] = repr(e)
    return out


CONFIGS = {
    "default": {},
    "nombqi": {"smt.mbqi": False},
    "nombqi-noauto": {"smt.mbqi": False, "auto_config": False},
}


def _check(args):
    idx, timeout_ms, seed = args[:3]
    cfg = args[3] if len(args) > 3 else "default"
    ob = _OBLS[idx]
    t0 = time.time()
    g = z3.simplify(ob.goal)
    if z3.is_true(g):
        return idx, "unsat", "simplify", 0.0, None
    s = z3.Solver()
    s.set("timeout", timeout_ms)
    if seed:
        s.set("random_seed", seed)
    for k, v in CONFIGS[cfg].items():
        s.set(k, v)
    for a in _AXIOMS:
        s.add(a)
    for a in ob.assumptions:
        s.add(a)
    s.add(z3.Not(ob.goal))
    r = s.check()
    dt = time.time() - t0
    if r == z3.unsat:
        return idx, "unsat", "z3-5.1" + ("" if cfg == "default" and not seed else f"[{cfg},seed={seed}]"), dt, None
    if r == z3.sat:
        return idx, "sat", "z3-5.1", dt, _model_values(s.model(), ob)
    # retry with a different strategy before giving up: split the goal's top-level conjunction
    return idx, "unknown", "z3-5.1", dt, s.reason_unknown()


def _cover(args):
    idx, timeout_ms = args
    name, pc = _COVERS[idx]
    s = z3.Solver()
    s.set("timeout", timeout_ms)
    for a in _AXIOMS:
        s.add(a)
    for a in pc:
        s.add(a)
    r = s.check()
    return idx, str(r)


def smt2_of(ob, axioms):
    s = z3.Solver()
    for a in axioms:
        s.add(a)
    for a in ob.assumptions:
        s.add(a)
    s.add(z3.Not(ob.goal))
    return "(set-logic ALL)\n" + s.to_smt2()


def _cli(args):
    idx, which, timeout_s = args
    ob = _OBLS[idx]
    text = smt2_of(ob, _AXIOMS)
    with tempfile.NamedTemporaryFile("w", suffix=".smt2", delete=False) as f:
        f.write(text)
        path = f.name
    try:
        if which == "cvc5":
            cmd = ["/usr/bin/cvc5", "--lang=smt2", f"--tlimit={timeout_s * 1000}", path]
        else:
            cmd = ["/usr/bin/z3", f"-T:{timeout_s}", path]
        t0 = time.time()
        try:
            p = subprocess.run(cmd, capture_output=True, text=True, timeout=timeout_s + 5)
            out = p.stdout.strip().splitlines()
            res = out[0].strip() if out else "unknown"
        except subprocess.TimeoutExpired:
            res = "timeout"
        if res not in ("sat", "unsat"):
            res = "unknown"
        return idx, which, res, time.time() - t0
    finally:
        os.unlink(path)


def _mentions(ob, names):
    seen = set()
    found = [False]

    def walk(t):
        if found[0] or t.get_id() in seen:
            return
        seen.add(t.get_id())
        if z3.is_quantifier(t):
            walk(t.body())
            return
        if z3.is_app(t):
            if t.decl().name() in names:
                found[0] = True
                return
            for ch in t.children():
                walk(ch)
    for a in ob.assumptions + [ob.goal]:
        walk(a)
    return found[0]


def _task(args):
    if args[0] == "z3":
        idx, status, backend, dt, extra = _check(args[1:])
        return idx, status, backend, dt, extra
    idx, which, res, dt = _cli(args[1:])
    return idx, res, which, dt, None


def discharge(obligations, axioms, timeout_ms=20000, procs=None, covers=None, cross=False, cross_timeout_s=30):
    """Returns list of result dicts aligned with `obligations` and cover results.

    Pass 1: z3 (python API), default configuration, short budget.  Pass 2, for what is still
    unknown: a portfolio run concurrently - z3 under 4 seeds x 3 quantifier configurations, the
    cvc5 CLI and the z3 4.8 CLI on the SMT-LIB2 text of the same query; the first decisive answer
    wins (an `unsat` and a `sat` for one query is reported as a disagreement, never as a verdict).
    """
    global _OBLS, _AXIOMS, _COVERS
    _OBLS = obligations
    # external-codec axioms only where the obligation mentions the tables
    ax_names = {"E_cp1252", "D_cp1252"}
    _AXIOMS = []
    for ob in obligations:
        if axioms and _mentions(ob, ax_names) and not getattr(ob, "_ax", False):
            ob.assumptions = list(axioms) + ob.assumptions
            ob._ax = True
    _COVERS = covers or []
    procs = procs or min(16, os.cpu_count() or 1)
    results = [None] * len(obligations)
    cover_res = [None] * len(_COVERS)
    cross_res = {}
    ctx = mp.get_context("fork")
    first_ms = min(timeout_ms, 8000)
    with ctx.Pool(procs) as pool:
        for idx, status, backend, dt, extra in pool.imap_unordered(
                _check, [(i, first_ms, 0) for i in range(len(obligations))], chunksize=1):
            results[idx] = {"status": status, "backend": backend, "time": dt, "extra": extra}
        if _COVERS:
            # vacuity: at most 3 exit paths per (function, exit kind) are checked for satisfiability
            seen = {}
            pick = []
            for i, (name, _) in enumerate(_COVERS):
                seen[name] = seen.get(name, 0) + 1
                if seen[name] <= 3:
                    pick.append(i)
            for idx, r in pool.imap_unordered(_cover, [(i, 2000) for i in pick], chunksize=2):
                cover_res[idx] = r
            for i in range(len(_COVERS)):
                if cover_res[i] is None:
                    cover_res[i] = "skipped"
    unk = [i for i, r in enumerate(results) if r["status"] == "unknown"]
    if unk:
        tasks = []
        for i in unk:
            tasks.append(("cli", i, "cvc5", max(cross_timeout_s, timeout_ms // 1000)))
            tasks.append(("cli", i, "z3-4.8", max(cross_timeout_s, timeout_ms // 1000)))
        for seed in (1, 2, 3, 4):
            for cfg in ("default", "nombqi", "nombqi-noauto"):
                for i in unk:
                    tasks.append(("z3", i, timeout_ms, seed, cfg))
        open_ = set(unk)
        pool = ctx.Pool(procs)
        try:
            for idx, status, backend, dt, extra in pool.imap_unordered(_task, tasks, chunksize=1):
                if status in ("sat", "unsat"):
                    r = results[idx]
                    if r["status"] == "unknown":
                        results[idx] = {"status": status, "backend": backend, "time": r["time"] + dt, "extra": extra}
                        open_.discard(idx)
                    elif r["status"] != status and r["status"] in ("sat", "unsat"):
                        r["status"] = "disagree"
                if not open_:
                    break
        finally:
            pool.terminate()
            pool.join()
    if cross:
        todo = [("cli", i, w, cross_timeout_s) for i in range(len(obligations)) for w in ("cvc5", "z3-4.8")
                if results[i]["backend"] != "simplify"]
        with ctx.Pool(procs) as pool:
            for idx, status, which, dt, _ in pool.imap_unordered(_task, todo, chunksize=1):
                cross_res.setdefault(idx, {})[which] = (status, dt)
    for idx, d in cross_res.items():
        r = results[idx]
        r["cross"] = {k: v[0] for k, v in d.items()}
        r["cross_time"] = sum(v[1] for v in d.values())
        verdicts = set(v[0] for v in d.values()) | {r["status"]}
        if "sat" in verdicts and "unsat" in verdicts:
            r["status"] = "disagree"
    return results, cover_res
