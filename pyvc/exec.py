"""E1: forward symbolic executor for the Python fragment of DESIGN.md appendix B.

Path exploration is by re-execution under a decision vector (`choose`): each run follows one
path; every branch / may-raise call / loop cut is a decision point.  `if` statements whose arms
fall through and contain no decision points are merged instead (If-terms), which keeps unrolled
code linear.  Obligations are collected as (name, assumptions, goal) and discharged elsewhere.
"""
import ast
import itertools
import z3

from . import repo

I = z3.IntVal
INT = z3.IntSort()
BOOL = z3.BoolSort()


class Unsupported(Exception):
    pass


class PathEnd(Exception):
    pass


class PyExc(Exception):
    def __init__(self, cls, node=None):
        self.cls = cls
        self.node = node


class ReturnSig(Exception):
    def __init__(self, value):
        self.value = value


class BreakSig(Exception):
    pass


class ContinueSig(Exception):
    pass


# ---------------------------------------------------------------- values
class _None:
    def __repr__(self):
        return "NONE"


NONE = _None()


class Ref:
    __slots__ = ("id",)

    def __init__(self, id):
        self.id = id

    def __repr__(self):
        return f"Ref({self.id})"


class SeqV:
    """Functional sequence: kind, element getter (z3 Int -> z3 term), length term."""
    __slots__ = ("kind", "get", "n", "lit", "arr")

    def __init__(self, kind, get, n, lit=None, arr=None):
        self.kind = kind
        self.get = get
        self.n = n
        self.lit = lit      # concrete python value for literals
        self.arr = arr      # z3 array constant when the value is a fresh symbol (for models)

    def with_kind(self, kind):
        return SeqV(kind, self.get, self.n, self.lit, self.arr)


class ObjV:
    __slots__ = ("cls", "fields")

    def __init__(self, cls, fields):
        self.cls = cls
        self.fields = fields


class ClsV:
    def __init__(self, ci):
        self.ci = ci


class FuncV:
    def __init__(self, fi, recv=None, after=None):
        self.fi = fi
        self.recv = recv


class BuiltinV:
    def __init__(self, name, recv=None):
        self.name = name
        self.recv = recv


class ExcClsV:
    def __init__(self, name):
        self.name = name


class ExcV:
    def __init__(self, name):
        self.name = name


class ModV:
    def __init__(self, name):
        self.name = name


class RangeV:
    def __init__(self, start, stop):
        self.start = start
        self.stop = stop


class TupleV:
    def __init__(self, items):
        self.items = items


class RatV:
    """a / c (true division) awaiting int()."""
    def __init__(self, num, den):
        self.num = num
        self.den = den


class OpaqueV:
    def __init__(self, what="opaque"):
        self.what = what


PYSTR = z3.DeclareSort("PyStr")
STRLEN = z3.Function("STRLEN", PYSTR, INT)
ISDIGIT = z3.Function("ISDIGIT", PYSTR, BOOL)
LOWER = z3.Function("LOWER", PYSTR, PYSTR)
PARSEABLE = z3.Function("PARSEABLE_INT", PYSTR, BOOL)
INTOF = z3.Function("INT_OF", PYSTR, INT)


class PStr:
    """an opaque Python string (generator code): equality, len, isdigit, lower, membership"""
    __slots__ = ("t", "lit")

    def __init__(self, t, lit=None):
        self.t = t
        self.lit = lit


class DictV:
    """an abstract str-keyed dict / set: membership and boolean values as uninterpreted functions"""
    __slots__ = ("inn", "val")

    def __init__(self, inn, val):
        self.inn = inn
        self.val = val


class SuperV:
    def __init__(self, recv, cls):
        self.recv = recv
        self.cls = cls


BUILTIN_EXC = {"ValueError", "RuntimeError", "TypeError", "IndexError", "AssertionError",
               "NotImplementedError", "KeyError", "Exception", "ZeroDivisionError", "AttributeError"}
MUTABLE_KINDS = {"bytearray", "list"}


def is_int(v):
    return isinstance(v, z3.ArithRef) and v.sort() == INT


def is_bool(v):
    return isinstance(v, z3.BoolRef)


def simp(t):
    return z3.simplify(t)


def concrete_int(t):
    if isinstance(t, int):
        return t
    if is_int(t):
        s = simp(t)
        if z3.is_int_value(s):
            return s.as_long()
    return None


class Frame:
    def __init__(self, fi, module, env=None, spec=False, cls=None):
        self.fi = fi
        self.module = module
        self.env = env if env is not None else {}
        self.spec = spec
        self.cls = cls if cls is not None else (fi.cls if fi is not None else None)


class Obligation:
    def __init__(self, name, kind, assumptions, goal, info, fn):
        self.name = name
        self.kind = kind
        self.assumptions = assumptions
        self.goal = goal
        self.info = info
        self.fn = fn
        self.models = None


def py_floordiv(a, b):
    cb = concrete_int(b)
    if cb is not None and cb > 0:
        return a / b
    return z3.If(b > 0, a / b, (-a) / (-b))


def py_mod(a, b):
    cb = concrete_int(b)
    if cb is not None and cb > 0:
        return a % b
    return z3.If(b > 0, a % b, -((-a) % (-b)))


def trunc_div(a, c):
    return z3.If(a >= 0, a / c, -((-a) / c))


class Exec:
    def __init__(self, registry, prune=True):
        self.reg = registry
        self.obls = {}
        self.order = []
        self.prune = prune
        self.assumptions_used = set()
        self.unsupported = []
        self.paths = 0
        self.covers = []
        self._prune_solver = None

    # ------------------------------------------------------------ exploration
    def explore(self, fn):
        """Run fn() once per path.  fn must start from a clean state via self.begin_path()."""
        stack = [[]]
        while stack:
            prefix = stack.pop()
            self.dec = list(prefix)
            self.decpos = 0
            self.newdec = []
            self.begin_path()
            try:
                fn()
                self.paths += 1
            except PathEnd:
                self.paths += 1
            for (p, n) in self.newdec:
                for alt in range(1, n):
                    stack.append(self.dec[:p] + [alt])
            if self.paths > 20000:
                raise Unsupported("path explosion")

    def choose(self, n):
        if self.decpos < len(self.dec):
            k = self.dec[self.decpos]
        else:
            k = 0
            self.dec.append(0)
            self.newdec.append((self.decpos, n))
        self.decpos += 1
        return k

    def begin_path(self):
        self.heap = {}
        self.pc = []
        self.counter = itertools.count()
        self.next_id = itertools.count(1)
        self.fname = "?"
        self.site = 0
        self.frames = []
        self.entry_scope = {}
        self._lits = {}
        self._xattrs = {}

    # ------------------------------------------------------------ state helpers
    def fresh(self, base, sort=INT):
        return z3.Const(f"{base}!{next(self.counter)}", sort)

    def alloc(self, obj):
        i = next(self.next_id)
        self.heap[i] = obj
        return Ref(i)

    def assume(self, t):
        if isinstance(t, bool):
            t = z3.BoolVal(t)
        s = simp(t)
        if z3.is_true(s):
            return
        if z3.is_false(s):
            raise PathEnd()
        self.pc.append(t)

    def feasible(self, extra=None):
        """False only when pc (and extra) is provably unsatisfiable (quick check)."""
        if not self.prune:
            return True
        s = z3.Solver()
        s.set("timeout", 300)
        for a in self.pc:
            s.add(a)
        if extra is not None:
            s.add(extra)
        return s.check() != z3.unsat

    def branch(self, cond):
        s = simp(cond)
        if z3.is_true(s):
            return True
        if z3.is_false(s):
            return False
        k = self.choose(2)
        if k == 0:
            self.pc.append(cond)
            if not self.feasible():
                raise PathEnd()
            return True
        self.pc.append(z3.Not(cond))
        if not self.feasible():
            raise PathEnd()
        return False

    def oblige(self, kind, goal, detail="", info=None):
        if isinstance(goal, bool):
            goal = z3.BoolVal(goal)
        name = f"{self.fname}:{kind}:{detail}"
        g = simp(goal)
        key = (name, tuple(a.get_id() for a in self.pc), g.get_id() if not z3.is_true(g) else 0)
        # several paths may produce the same named obligation with different assumptions: keep all
        if key in self.obls:
            return
        ob = Obligation(name, kind, list(self.pc) + self.lit_facts(), goal, info or {}, self.fname)
        self.obls[key] = ob
        self.order.append(ob)

    def fresh_seq(self, kind, base="s", nonneg=True):
        arr = z3.Const(f"{base}!{next(self.counter)}", z3.ArraySort(INT, INT))
        n = self.fresh(base + "_len")
        self.pc.append(n >= 0)
        k = z3.Int("k!q")
        hi = 255 if kind in ("bytes", "bytearray", "memoryview") else 0x10FFFF
        if kind in ("bytes", "bytearray", "memoryview", "str"):
            self.pc.append(z3.ForAll([k], z3.And(arr[k] >= 0, arr[k] <= hi), patterns=[arr[k]]))
        return SeqV(kind, (lambda a: (lambda j: a[j]))(arr), n, arr=arr)

    def lit_seq(self, kind, values):
        vals = [v if not isinstance(v, int) else I(v) for v in values]
        n = len(vals)

        def get(j, vals=vals):
            cj = concrete_int(j)
            if cj is not None and 0 <= cj < len(vals):
                return vals[cj]
            t = I(0)
            for idx in range(len(vals) - 1, -1, -1):
                t = z3.If(j == idx, vals[idx], t)
            return t
        return SeqV(kind, get, I(n), lit=values if all(isinstance(v, int) for v in values) else None)

    def pstr_lit(self, text):
        c = z3.Const("strlit:" + text, PYSTR)
        known = getattr(self, "_lits", None)
        if known is None:
            known = self._lits = {}
        if text not in known:
            known[text] = c
        return PStr(c, text)

    def lit_facts(self):
        """definitional facts about the string literals seen on this path"""
        out = []
        lits = getattr(self, "_lits", {})
        items = sorted(lits.items())
        if len(items) > 1:
            out.append(z3.Distinct(*[c for _, c in items]))
        for text, c in items:
            out.append(STRLEN(c) == len(text))
            out.append(ISDIGIT(c) == z3.BoolVal(text.isdigit()))
            low = text.lower()
            if low in lits:
                out.append(LOWER(c) == lits[low])
            try:
                iv = int(text)
                out.append(z3.And(PARSEABLE(c), INTOF(c) == iv))
            except ValueError:
                out.append(z3.Not(PARSEABLE(c)))
        return out

    def as_pstr(self, v):
        if isinstance(v, PStr):
            return v
        sq = self.seq(v)
        if sq is not None and isinstance(sq.lit, str):
            return self.pstr_lit(sq.lit)
        return None

    def seq(self, v):
        if isinstance(v, Ref):
            o = self.heap.get(v.id)
            if isinstance(o, SeqV):
                return o
        return None

    def obj(self, v):
        if isinstance(v, Ref):
            o = self.heap.get(v.id)
            if isinstance(o, ObjV):
                return o
        return None

    # ------------------------------------------------------------ sequences
    def seq_slice(self, s, lo, hi):
        n = s.n
        if lo is None:
            a = I(0)
        else:
            a = z3.If(lo < 0, z3.If(lo + n < 0, I(0), lo + n), z3.If(lo > n, n, lo))
        if hi is None:
            b = n
        else:
            b = z3.If(hi < 0, z3.If(hi + n < 0, I(0), hi + n), z3.If(hi > n, n, hi))
        a = simp(a)
        b = simp(b)
        ln = simp(z3.If(b - a < 0, I(0), b - a))
        kind = "bytes" if s.kind == "memoryview" else s.kind
        if s.kind == "memoryview":
            kind = "memoryview"
        return SeqV(kind, (lambda g, a: (lambda j: g(j + a)))(s.get, a), ln)

    def seq_concat(self, s1, s2, kind=None):
        n1 = s1.n
        return SeqV(kind or s1.kind,
                    (lambda g1, g2, n1: (lambda j: z3.If(j < n1, g1(j), g2(j - n1))))(s1.get, s2.get, n1),
                    simp(s1.n + s2.n))

    def seq_eq(self, s1, s2):
        k = z3.Int("k!e")
        return z3.And(s1.n == s2.n,
                      z3.ForAll([k], z3.Implies(z3.And(0 <= k, k < s1.n), s1.get(k) == s2.get(k))))

    def byte_range(self, v, what):
        self.oblige("byte-range", z3.And(v >= 0, v <= 255), what)

    # ------------------------------------------------------------ name resolution
    def lookup_name(self, name, fr):
        if name in fr.env:
            return fr.env[name]
        m = fr.module
        if m is not None:
            if name in m.functions:
                return FuncV(m.functions[name])
            if name in m.classes:
                return ClsV(m.classes[name])
            ci = repo.resolve_class(m, name)
            if ci is not None:
                return ClsV(ci)
            fi = repo.resolve_function(m, name)
            if fi is not None:
                return FuncV(fi)
            ce = repo.resolve_constant_expr(m, name)
            if ce is not None:
                cm, expr = ce
                return self.ev(expr, Frame(None, cm, {}, spec=fr.spec))
            imp = m.imports.get(name)
            if imp is not None:
                if imp[0] == "mod":
                    return ModV(imp[1])
                if imp[0] == "from":
                    full = imp[1] + "." + imp[2]
                    if repo.load_module(full) is not None:
                        return ModV(full)
                    return BuiltinV(full)
        if name in BUILTIN_EXC:
            return ExcClsV(name)
        if name in ("len", "min", "max", "abs", "int", "bool", "range", "bytes", "bytearray",
                    "memoryview", "tuple", "list", "isinstance", "print", "str", "repr", "pow",
                    "all", "any", "implies", "trigger", "sum", "object", "super", "cast", "ord", "chr", "sorted"):
            return BuiltinV(name)
        raise Unsupported(f"unknown name {name} in {self.fname}")

    # ------------------------------------------------------------ truthiness / merge
    def truth(self, v):
        if isinstance(v, OpaqueV) and self.opaque_mode():
            return self.fresh("opaque_truth", BOOL)         # nothing is known about an opaque value
        if isinstance(v, PStr):
            return STRLEN(v.t) != 0
        if is_bool(v):
            return v
        if is_int(v):
            return v != 0
        if v is NONE:
            return z3.BoolVal(False)
        s = self.seq(v)
        if s is not None:
            return s.n != 0
        if self.obj(v) is not None:
            return z3.BoolVal(True)
        if isinstance(v, bool):
            return z3.BoolVal(v)
        raise Unsupported(f"truthiness of {v!r}")

    def merge_val(self, c, a, b):
        if a is b:
            return a
        if isinstance(a, OpaqueV) and isinstance(b, OpaqueV):
            return OpaqueV("merged")
        if is_int(a) and is_int(b):
            return simp(z3.If(c, a, b)) if not a.eq(b) else a
        if is_bool(a) and is_bool(b):
            return simp(z3.If(c, a, b)) if not a.eq(b) else a
        if a is NONE and b is NONE:
            return NONE
        if isinstance(a, PStr) and isinstance(b, PStr):
            return PStr(z3.If(c, a.t, b.t))
        if isinstance(a, Ref) and isinstance(b, Ref):
            if a.id == b.id:
                return a
            sa, sb = self.seq(a), self.seq(b)
            if sa is not None and sb is not None and sa.kind == sb.kind:
                return self.alloc(self.merge_seq(c, sa, sb))
        if isinstance(a, SeqV) and isinstance(b, SeqV):
            return self.merge_seq(c, a, b)
        if isinstance(a, TupleV) and isinstance(b, TupleV) and len(a.items) == len(b.items):
            return TupleV([self.merge_val(c, x, y) for x, y in zip(a.items, b.items)])
        raise Unsupported(f"cannot merge {a!r} / {b!r}")

    def merge_seq(self, c, sa, sb):
        if sa is sb:
            return sa
        return SeqV(sa.kind, (lambda g1, g2: (lambda j: z3.If(c, g1(j), g2(j))))(sa.get, sb.get),
                    simp(z3.If(c, sa.n, sb.n)))

    # ------------------------------------------------------------ expressions
    def ev(self, node, fr):
        m = getattr(self, "ev_" + type(node).__name__, None)
        if m is None:
            raise Unsupported(f"expression {type(node).__name__} in {self.fname}")
        return m(node, fr)

    def ev_Constant(self, node, fr):
        v = node.value
        if isinstance(v, bool):
            return z3.BoolVal(v)
        if isinstance(v, int):
            return I(v)
        if v is None:
            return NONE
        if isinstance(v, str):
            s = self.lit_seq("str", [ord(ch) for ch in v])
            s.lit = v
            return self.alloc(s)
        if isinstance(v, bytes):
            return self.alloc(self.lit_seq("bytes", list(v)))
        raise Unsupported(f"constant {v!r}")

    def ev_Name(self, node, fr):
        return self.lookup_name(node.id, fr)

    def ev_JoinedStr(self, node, fr):
        return OpaqueV("fstring")     # message text of exceptions is not modelled

    def ev_List(self, node, fr):
        if node.elts and all(isinstance(e, ast.Constant) and isinstance(e.value, str) for e in node.elts):
            o = OpaqueV("strlist")
            o.pystrs = [self.pstr_lit(e.value) for e in node.elts]
            return o
        return self.alloc(self.lit_seq("list", [self.as_int(self.ev(e, fr)) for e in node.elts]))

    def ev_Tuple(self, node, fr):
        return TupleV([self.ev(e, fr) for e in node.elts])

    def as_int(self, v):
        if is_int(v):
            return v
        if is_bool(v):
            return z3.If(v, I(1), I(0))
        raise Unsupported(f"expected int, got {v!r} in {self.fname}")

    def ev_UnaryOp(self, node, fr):
        v = self.ev(node.operand, fr)
        if isinstance(node.op, ast.Not):
            return simp(z3.Not(self.truth(v)))
        if isinstance(node.op, ast.USub):
            return simp(-self.as_int(v))
        if isinstance(node.op, ast.UAdd):
            return self.as_int(v)
        raise Unsupported("unary op")

    def guarded(self, guard, thunk):
        """Evaluate thunk() with `guard` assumed; facts learnt meanwhile (callee posts, find...)
        are kept as implications guard => fact."""
        base = len(self.pc)
        self.pc.append(guard)
        try:
            v = thunk()
            learnt = self.pc[base + 1:]
        finally:
            del self.pc[base:]
        for f in learnt:
            self.pc.append(z3.Implies(guard, f))
        return v

    def ev_BoolOp(self, node, fr):
        is_and = isinstance(node.op, ast.And)
        terms = []
        for e in node.values:
            guard = z3.And(*[t if is_and else z3.Not(t) for t in terms]) if terms else z3.BoolVal(True)
            v = self.guarded(guard, lambda e=e: self.ev(e, fr))     # short-circuit guard
            t = v if is_bool(v) else self.truth(v)
            terms.append(t)
            st = simp(t)
            if (is_and and z3.is_false(st)) or (not is_and and z3.is_true(st)):
                break           # decided: later operands are not evaluated (as in Python)
        return simp(z3.And(*terms) if is_and else z3.Or(*terms))

    def ev_IfExp(self, node, fr):
        c = self.truth(self.ev(node.test, fr))
        sc = simp(c)
        if z3.is_true(sc):
            return self.ev(node.body, fr)
        if z3.is_false(sc):
            return self.ev(node.orelse, fr)
        a = self.guarded(c, lambda: self.ev(node.body, fr))
        b = self.guarded(z3.Not(c), lambda: self.ev(node.orelse, fr))
        return self.merge_val(c, a, b)

    def ev_BinOp(self, node, fr):
        a = self.ev(node.left, fr)
        b = self.ev(node.right, fr)
        op = node.op
        sa, sb = self.seq(a), self.seq(b)
        if isinstance(op, ast.Add) and sa is not None and sb is not None:
            return self.alloc(self.seq_concat(sa, sb))
        if isinstance(op, ast.Add) and (isinstance(a, OpaqueV) or isinstance(b, OpaqueV)):
            return OpaqueV("str+")
        if isinstance(op, ast.Mult) and sa is not None and (is_int(b)):
            # [c] * n  : constant sequence
            if concrete_int(sa.n) == 1:
                c0 = sa.get(I(0))
                n = simp(z3.If(b < 0, I(0), b))
                return self.alloc(SeqV(sa.kind, (lambda c0: (lambda j: c0))(c0), n))
            raise Unsupported("sequence repetition")
        if isinstance(op, ast.Div):
            return RatV(self.as_int(a), self.as_int(b))
        a = self.as_int(a)
        b = self.as_int(b)
        if isinstance(op, ast.Add):
            return simp(a + b)
        if isinstance(op, ast.Sub):
            return simp(a - b)
        if isinstance(op, ast.Mult):
            return simp(a * b)
        if isinstance(op, (ast.FloorDiv, ast.Mod)):
            if not fr.spec:
                self.oblige("div-zero", b != 0, f"L{node.lineno}")
            r = py_floordiv(a, b) if isinstance(op, ast.FloorDiv) else py_mod(a, b)
            return simp(r)
        if isinstance(op, ast.Pow):
            ca, cb = concrete_int(a), concrete_int(b)
            if ca is not None and cb is not None and cb >= 0:
                return I(ca ** cb)
            raise Unsupported("symbolic power")
        if isinstance(op, ast.BitAnd):
            cb = concrete_int(b)
            if cb is not None and cb >= 0 and (cb & (cb + 1)) == 0:
                return simp(a % (cb + 1))          # x & (2^k-1) == x mod 2^k for every Python int
            raise Unsupported("bit-and with non-mask")
        if isinstance(op, ast.BitXor):
            cb = concrete_int(b)
            if cb is not None and cb > 0 and (cb & (cb - 1)) == 0:
                return simp(z3.If((a / cb) % 2 == 0, a + cb, a - cb))   # flip one bit
            raise Unsupported("xor with non-single-bit")
        raise Unsupported(f"binary op {type(op).__name__}")

    def cmp(self, op, a, b, fr, node):
        if self.opaque_mode() and (isinstance(a, OpaqueV) or isinstance(b, OpaqueV)):
            return self.fresh("opaque_cmp", BOOL)           # nothing is known about an opaque value
        if isinstance(op, (ast.Is, ast.IsNot)):
            if b is NONE or a is NONE:
                other = a if b is NONE else b
                r = z3.BoolVal(other is NONE)
                return simp(z3.Not(r)) if isinstance(op, ast.IsNot) else r
            if isinstance(a, Ref) and isinstance(b, Ref):
                r = z3.BoolVal(a.id == b.id)
                return simp(z3.Not(r)) if isinstance(op, ast.IsNot) else r
            raise Unsupported("is on non-None")
        if isinstance(op, (ast.Eq, ast.NotEq)) and (isinstance(a, PStr) or isinstance(b, PStr)):
            pa, pb = self.as_pstr(a), self.as_pstr(b)
            if pa is None or pb is None:
                r = z3.BoolVal(False) if (a is NONE or b is NONE) else None
                if r is None:
                    raise Unsupported("string compared with a non-string")
            elif pa.lit is not None and pb.lit is not None:
                r = z3.BoolVal(pa.lit == pb.lit)
            else:
                r = pa.t == pb.t
            return simp(z3.Not(r)) if isinstance(op, ast.NotEq) else simp(r)
        if isinstance(op, (ast.In, ast.NotIn)) and isinstance(a, PStr):
            if isinstance(b, DictV):
                r = b.inn(a.t)
                return simp(z3.Not(r)) if isinstance(op, ast.NotIn) else r
            lst = getattr(b, "pystrs", None)
            if lst is not None:
                r = z3.Or(*[a.t == x.t for x in lst]) if lst else z3.BoolVal(False)
                return simp(z3.Not(r)) if isinstance(op, ast.NotIn) else simp(r)
        if isinstance(op, (ast.Eq, ast.NotEq)):
            if (a is NONE) != (b is NONE):
                r = z3.BoolVal(False)
            elif a is NONE and b is NONE:
                r = z3.BoolVal(True)
            elif is_bool(a) and is_bool(b):
                r = a == b
            elif (is_int(a) or is_bool(a)) and (is_int(b) or is_bool(b)):
                r = self.as_int(a) == self.as_int(b)
            else:
                sa, sb = self.seq(a), self.seq(b)
                if sa is not None and sb is not None:
                    r = self.seq_eq(sa, sb)
                elif isinstance(a, TupleV) and isinstance(b, TupleV) and len(a.items) == len(b.items):
                    r = z3.And(*[self.cmp(ast.Eq(), x, y, fr, node) for x, y in zip(a.items, b.items)])
                else:
                    raise Unsupported(f"== on {a!r}, {b!r}")
            return simp(z3.Not(r)) if isinstance(op, ast.NotEq) else simp(r)
        if isinstance(op, (ast.In, ast.NotIn)):
            sb = self.seq(b)
            if sb is not None and concrete_int(sb.n) is not None and is_int(a):
                r = z3.Or(*[a == sb.get(I(j)) for j in range(concrete_int(sb.n))])
                return simp(z3.Not(r)) if isinstance(op, ast.NotIn) else simp(r)
            raise Unsupported("in")
        a = self.as_int(a)
        b = self.as_int(b)
        if isinstance(op, ast.Lt):
            return simp(a < b)
        if isinstance(op, ast.LtE):
            return simp(a <= b)
        if isinstance(op, ast.Gt):
            return simp(a > b)
        if isinstance(op, ast.GtE):
            return simp(a >= b)
        raise Unsupported("comparison")

    def ev_Compare(self, node, fr):
        left = self.ev(node.left, fr)
        terms = []
        for op, c in zip(node.ops, node.comparators):
            right = self.ev(c, fr)
            terms.append(self.cmp(op, left, right, fr, node))
            left = right
        return terms[0] if len(terms) == 1 else simp(z3.And(*terms))

    def ev_Subscript(self, node, fr):
        base = self.ev(node.value, fr)
        if isinstance(base, OpaqueV) and self.opaque_mode():
            return OpaqueV(base.what + "[]")
        s = self.seq(base)
        if s is None and isinstance(base, SeqV):
            s = base
        if s is None:
            if isinstance(base, TupleV) and not isinstance(node.slice, ast.Slice):
                ci = concrete_int(self.ev(node.slice, fr))
                if ci is not None:
                    return base.items[ci]
            raise Unsupported(f"subscript of {base!r} in {self.fname}")
        if isinstance(node.slice, ast.Slice):
            if node.slice.step is not None:
                raise Unsupported("slice step")
            lo = self.as_int(self.ev(node.slice.lower, fr)) if node.slice.lower is not None else None
            hi = self.as_int(self.ev(node.slice.upper, fr)) if node.slice.upper is not None else None
            r = self.seq_slice(s, lo, hi)
            return self.alloc(r)
        i = self.as_int(self.ev(node.slice, fr))
        if not fr.spec:
            self.oblige("index", z3.And(i >= -s.n, i < s.n), f"L{node.lineno}c{node.col_offset}")
        idx = simp(z3.If(i < 0, i + s.n, i)) if not fr.spec else i
        return s.get(idx)

    def ev_Dict(self, node, fr):
        if node.keys:
            raise Unsupported("non-empty dict literal")
        return DictV(lambda t: z3.BoolVal(False), lambda t: z3.BoolVal(False))

    def ev_Attribute(self, node, fr):
        base = self.ev(node.value, fr)
        return self.getattr(base, node.attr, fr, node)

    def opaque_mode(self):
        cur = getattr(self.reg, "current", None)
        return cur.attrs.get("opaque_calls") if cur is not None else None

    def opaque_call(self, node, what=""):
        """a call the contract declares opaque (string building, builders, XML accessors): it may
        return anything and - in 'mayraise' mode - may raise; nothing it does is relied upon"""
        if self.opaque_mode() == "mayraise" and self.choose(2) == 1:
            raise PyExc("OpaqueFailure", node)
        return OpaqueV("opaque-result:" + what)

    def getattr(self, base, attr, fr, node=None):
        if isinstance(base, OpaqueV) and self.opaque_mode():
            return OpaqueV(base.what + "." + attr)
        if isinstance(base, PStr) and attr in ("isdigit", "lower", "strip"):
            return BuiltinV("pystr." + attr, recv=base)
        if isinstance(base, DictV) and attr in ("get", "clear"):
            return BuiltinV("dict." + attr, recv=base)
        o = self.obj(base)
        if o is not None:
            if attr in o.fields:
                return o.fields[attr]
            pr = o.cls.find_prop(attr) if o.cls is not None else None
            if pr is not None and "get" in pr:
                return self.call_user(pr["get"], [base], {}, fr, node)
            mi = o.cls.find_method(attr) if o.cls is not None else None
            if mi is not None:
                if mi.kind == "static":
                    return FuncV(mi)
                return FuncV(mi, recv=base)
            if fr.spec:
                raise Unsupported(f"spec reads unknown field {attr}")
            if self.opaque_mode():
                return OpaqueV("attr:" + attr)
            raise Unsupported(f"attribute {attr} of {o.cls.name if o.cls else '?'} in {self.fname}")
        s = self.seq(base)
        if s is not None:
            return BuiltinV("seq." + attr, recv=base)
        if isinstance(base, ClsV):
            mi = base.ci.find_method(attr)
            if mi is not None:
                if mi.kind == "classmethod":
                    return FuncV(mi, recv=base)         # cls is bound to the class the method was looked up on
                return FuncV(mi)
            if attr in base.ci.inner:
                return ClsV(base.ci.inner[attr])
            if attr in base.ci.class_assigns:
                return self.ev(base.ci.class_assigns[attr], Frame(None, base.ci.module, {}, spec=fr.spec))
            raise Unsupported(f"class attribute {base.ci.name}.{attr}")
        if isinstance(base, ModV):
            m = repo.load_module(base.name)
            if m is not None:
                return self.lookup_name(attr, Frame(None, m, {}, spec=fr.spec))
            return BuiltinV(base.name + "." + attr)
        if isinstance(base, SuperV):
            mi = base.cls.find_method(attr, after=None)
            # method lookup starting after the defining class
            mro = self.obj(base.recv).cls.mro()
            start = mro.index(base.cls) + 1
            for c in mro[start:]:
                if attr in c.methods:
                    return FuncV(c.methods[attr], recv=base.recv)
            if attr == "__init__":
                return BuiltinV("object.__init__", recv=base.recv)
            raise Unsupported("super attribute")
        if isinstance(base, BuiltinV):
            return BuiltinV(base.name + "." + attr, recv=base.recv)
        raise Unsupported(f"attribute {attr} of {base!r} in {self.fname}")

    # ---- quantifiers in spec expressions
    def quantify(self, gen, fr, universal):
        """all(...) / any(...) over a generator with range() iterables.  Literal ranges of at most
        16 values are expanded; chains of symbolic binders become one quantifier; `trigger(...)`
        calls in the body become its explicit pattern."""
        if not isinstance(gen, ast.GeneratorExp):
            raise Unsupported("all/any needs a generator")
        env = dict(fr.env)
        sub = Frame(fr.fi, fr.module, env, spec=fr.spec, cls=fr.cls)
        self.quant_depth = getattr(self, "quant_depth", 0) + 1
        if not hasattr(self, "quant_triggers"):
            self.quant_triggers = []

        def close(vs, conds, body, trigs):
            if not vs:
                return body
            if universal:
                f = z3.Implies(z3.And(*conds), body)
                if trigs:
                    return z3.ForAll(vs, f, patterns=[z3.MultiPattern(*trigs) if len(trigs) > 1 else trigs[0]])
                return z3.ForAll(vs, f)
            return z3.Exists(vs, z3.And(*(conds + [body])))

        def rec(idx, vs, conds):
            if idx == len(gen.generators):
                base = len(self.quant_triggers)
                body = self.truth(self.ev(gen.elt, sub))
                trigs = self.quant_triggers[base:]
                del self.quant_triggers[base:]
                return close(vs, conds, body, trigs)
            comp = gen.generators[idx]
            if not isinstance(comp.target, ast.Name):
                raise Unsupported("quantifier target")
            it = self.ev(comp.iter, sub)
            if not isinstance(it, RangeV):
                raise Unsupported("quantifier over non-range")
            lo, hi = it.start, it.stop
            clo, chi = concrete_int(lo), concrete_int(hi)
            name = comp.target.id
            if clo is not None and chi is not None and chi - clo <= 16:
                parts = []
                for val in range(clo, chi):
                    env[name] = I(val)
                    cs = [self.truth(self.ev(c, sub)) for c in comp.ifs]
                    inner = rec(idx + 1, [], [])
                    if universal:
                        parts.append(z3.Implies(z3.And(*cs), inner) if cs else inner)
                    else:
                        parts.append(z3.And(*(cs + [inner])))
                if universal:
                    ex = z3.And(*parts) if parts else z3.BoolVal(True)
                else:
                    ex = z3.Or(*parts) if parts else z3.BoolVal(False)
                return close(vs, conds, ex, [])
            v = z3.Int(f"{name}!b{next(self.counter)}")
            env[name] = v
            cs = [lo <= v, v < hi] + [self.truth(self.ev(c, sub)) for c in comp.ifs]
            return rec(idx + 1, vs + [v], conds + cs)
        try:
            return simp(rec(0, [], []))
        finally:
            self.quant_depth -= 1

    # ------------------------------------------------------------ calls
    def ev_Call(self, node, fr):
        # spec-level quantifiers need the unevaluated generator
        if isinstance(node.func, ast.Name) and node.func.id in ("all", "any") and node.func.id not in fr.env:
            if len(node.args) == 1 and isinstance(node.args[0], ast.GeneratorExp):
                return self.quantify(node.args[0], fr, node.func.id == "all")
        if isinstance(node.func, ast.Name) and node.func.id == "super" and not node.args:
            recv = fr.env.get("self")
            return SuperV(recv, fr.cls)
        if isinstance(node.func, ast.Name) and node.func.id in ("requires", "ensures", "check") \
                and fr.module is not None and fr.module.imports.get(node.func.id, ("", ""))[1] == "pyvc.api":
            sfr = Frame(fr.fi, fr.module, fr.env, spec=True, cls=fr.cls)
            t = self.truth(self.ev(node.args[0], sfr))
            if node.func.id == "requires":
                self.assume(t)
                if not self.feasible():
                    raise PathEnd()
            else:
                self.oblige("lemma-" + node.func.id, t, f"L{node.lineno}", {"clause": ast.unparse(node.args[0])})
                self.assume(t)
            return NONE
        f = self.ev(node.func, fr)
        args = []
        for a in node.args:
            if isinstance(a, ast.Starred):
                raise Unsupported("*args")
            args.append(self.ev(a, fr))
        kwargs = {}
        for k in node.keywords:
            if k.arg is None:
                raise Unsupported("**kwargs")
            kwargs[k.arg] = self.ev(k.value, fr)
        return self.call(f, args, kwargs, fr, node)

    def call(self, f, args, kwargs, fr, node):
        if isinstance(f, FuncV):
            a = list(args)
            if f.recv is not None:
                a = [f.recv] + a
            return self.call_user(f.fi, a, kwargs, fr, node)
        if isinstance(f, ClsV):
            return self.construct(f.ci, args, kwargs, fr, node)
        if isinstance(f, ExcClsV):
            return ExcV(f.name)
        if isinstance(f, BuiltinV):
            return self.call_builtin(f, args, kwargs, fr, node)
        if isinstance(f, OpaqueV) and self.opaque_mode():
            return self.opaque_call(node, f.what)
        raise Unsupported(f"call of {f!r} in {self.fname}")

    def construct(self, ci, args, kwargs, fr, node):
        if ci.is_subclass_of("eolib.protocol.serialization_error.SerializationError") or \
                any(isinstance(b, ast.Name) and b.id in BUILTIN_EXC for b in ci.node.bases):
            return ExcV(ci.name)
        con = self.reg.get(ci.qualname + ".__init__")
        ref = self.alloc(ObjV(ci, {}))
        init = ci.find_method("__init__")
        if init is None:
            return ref
        self.call_user(init, [ref] + list(args), kwargs, fr, node)
        return ref

    def bind_args(self, fi, args, kwargs, fr):
        params = fi.params
        defaults = fi.defaults()
        env = {}
        if len(args) > len(params):
            raise Unsupported(f"too many args for {fi.qualname}")
        for p, a in zip(params, args):
            env[p] = a
        for k, v in kwargs.items():
            if k not in params or k in env:
                raise Unsupported(f"bad kwarg {k} for {fi.qualname}")
            env[k] = v
        for p in params:
            if p not in env:
                if p in defaults:
                    env[p] = self.ev(defaults[p], Frame(None, fi.module, {}, spec=fr.spec))
                else:
                    raise Unsupported(f"missing arg {p} for {fi.qualname}")
        return env

    def call_user(self, fi, args, kwargs, fr, node):
        if getattr(fi, "foreign_decorators", None) and not self.reg.is_spec_module(fi.module.name) \
                and not fi.module.name.startswith("lemmas."):
            con0 = self.reg.get(fi.qualname)
            if con0 is None or not con0.attrs.get("trusted"):
                raise Unsupported(f"{fi.qualname} is wrapped by decorator(s) {fi.foreign_decorators}: semantics not modelled")
        env = self.bind_args(fi, args, kwargs, fr)
        if self.reg.is_spec_module(fi.module.name):
            return self.spec_call(fi, env, fr)
        con = self.reg.get(fi.qualname)
        if fi.qualname in self.reg.force_inline:
            return self.inline_call(fi, env, fr)
        if con is not None and not con.inline and not (self.reg.current is con and con.allow_self_inline):
            return self.reg.apply_contract(self, con, fi, env, fr, node)
        if self.reg.may_inline(fi) and not (self.opaque_mode() and fi.name not in ("__init__", "__len__")
                                            and not (fi.kind == "property" and _simple_getter(fi))):
            return self.inline_call(fi, env, fr)
        if self.opaque_mode():
            return self.opaque_call(node, fi.qualname)
        raise Unsupported(f"call to {fi.qualname} without contract (from {self.fname})")

    def inline_call(self, fi, env, fr, depth=[0]):
        depth[0] += 1
        try:
            if depth[0] > 12:
                raise Unsupported("inline depth")
            sub = Frame(fi, fi.module, env, spec=fr.spec)
            self.frames.append(sub)
            try:
                self.exec_block(fi.body(), sub)
            except ReturnSig as r:
                return r.value
            finally:
                self.frames.pop()
            return NONE
        finally:
            depth[0] -= 1

    def spec_call(self, fi, env, fr):
        if fi.name in ("CP_E", "CP_D") and fi.module.name == "contracts.spec":
            # the external codec tables (extracted from CPython and checked at start-up)
            arg = self.as_int(list(env.values())[0])
            return self.reg.E(arg) if fi.name == "CP_E" else self.reg.D(arg)
        if fi.name == "XBOOL":
            # get_boolean_attribute(element, name, default): a pure function of its arguments (trusted)
            vals = list(env.values())
            el, nm, dflt = vals[0], self.as_pstr(vals[1]), vals[2]
            key = (el.id if isinstance(el, Ref) else id(el), nm.lit if nm is not None else None, str(dflt))
            cache = getattr(self, "_xattrs", None)
            if cache is None:
                cache = self._xattrs = {}
            if key not in cache:
                cache[key] = self.fresh("xbool_" + str(key[1]), BOOL)
            return cache[key]
        if fi.name in ("PARSEABLE", "INT_OF"):
            # int(str) of CPython is external: its graph is a pair of uninterpreted functions
            a = self.as_pstr(list(env.values())[0])
            if a is None:
                raise Unsupported(fi.name + " of a non-string")
            return PARSEABLE(a.t) if fi.name == "PARSEABLE" else INTOF(a.t)
        sub = Frame(fi, fi.module, env, spec=True)
        v = self.spec_block(fi.body(), sub)
        if v is None:
            return NONE
        return v

    def spec_block(self, stmts, fr):
        for idx, s in enumerate(stmts):
            if isinstance(s, ast.Return):
                return self.ev(s.value, fr) if s.value is not None else NONE
            if isinstance(s, ast.If):
                c = simp(self.truth(self.ev(s.test, fr)))
                rest = stmts[idx + 1:]
                if z3.is_true(c):
                    return self.spec_block(list(s.body) + rest, fr)
                if z3.is_false(c):
                    return self.spec_block(list(s.orelse) + rest, fr)
                f1 = Frame(fr.fi, fr.module, dict(fr.env), spec=True, cls=fr.cls)
                f2 = Frame(fr.fi, fr.module, dict(fr.env), spec=True, cls=fr.cls)
                v1 = self.guarded(c, lambda: self.spec_block(list(s.body) + rest, f1))
                v2 = self.guarded(z3.Not(c), lambda: self.spec_block(list(s.orelse) + rest, f2))
                if v1 is None or v2 is None:
                    raise Unsupported("spec function path without return")
                return self.merge_val(c, v1, v2)
            if isinstance(s, (ast.Assign, ast.AnnAssign, ast.AugAssign)):
                self.exec_stmt(s, fr)
                continue
            if isinstance(s, ast.For):
                it = self.ev(s.iter, fr)
                if isinstance(it, RangeV):
                    lo, hi = concrete_int(it.start), concrete_int(it.stop)
                    if lo is not None and hi is not None and hi - lo <= 64 and isinstance(s.target, ast.Name):
                        body = []
                        for val in range(lo, hi):
                            body.append(ast.Assign(targets=[ast.Name(id=s.target.id, ctx=ast.Store())],
                                                   value=ast.Constant(value=val), lineno=s.lineno, col_offset=0))
                            body.extend(s.body)
                        return self.spec_block(body + stmts[idx + 1:], fr)
                raise Unsupported("spec for-loop needs a concrete range")
            if isinstance(s, (ast.Pass, ast.Expr)):
                continue
            raise Unsupported(f"spec statement {type(s).__name__}")
        return None

    # ---- builtins
    def deep_copy(self, v, depth=0):
        """copy.deepcopy of a record-like object: scalars and abstract dicts are values, nested objects
        and sequences are copied"""
        if depth > 6:
            raise Unsupported("deepcopy depth")
        o = self.obj(v)
        if o is not None and self.seq(v) is None:
            return self.alloc(ObjV(o.cls, {k: self.deep_copy(x, depth + 1) for k, x in o.fields.items()}))
        sq = self.seq(v)
        if sq is not None:
            return self.alloc(SeqV(sq.kind, sq.get, sq.n, sq.lit))
        return v

    def call_builtin(self, f, args, kwargs, fr, node):
        n = f.name
        if n in ("copy.deepcopy", "copy.copy") and len(args) == 1:
            if n == "copy.copy":
                o = self.obj(args[0])
                if o is None or self.seq(args[0]) is not None:
                    raise Unsupported("copy.copy of a non-object")
                return self.alloc(ObjV(o.cls, dict(o.fields)))
            return self.deep_copy(args[0])
        if n == "dict.clear":
            # the abstract dict is a value held in a field: clearing = storing an empty one there
            tgt = node.func.value if isinstance(node, ast.Call) and isinstance(node.func, ast.Attribute) else None
            if not isinstance(tgt, ast.Attribute):
                raise Unsupported("clear() of a dict that is not an attribute")
            owner = self.obj(self.ev(tgt.value, fr))
            if owner is None or not isinstance(owner.fields.get(tgt.attr), DictV):
                raise Unsupported("clear() target")
            owner.fields[tgt.attr] = DictV(lambda t: z3.BoolVal(False), owner.fields[tgt.attr].val)
            return NONE
        if n == "len" and isinstance(args[0], PStr):
            return STRLEN(args[0].t)
        if n == "len":
            s = self.seq(args[0])
            if s is None:
                if isinstance(args[0], SeqV):
                    return args[0].n
                o = self.obj(args[0])
                if o is not None:
                    mi = o.cls.find_method("__len__")
                    if mi is not None:
                        return self.call_user(mi, [args[0]], {}, fr, node)
                raise Unsupported(f"len of {args[0]!r} in {self.fname}")
            return s.n
        if n in ("min", "max"):
            vals = [self.as_int(a) for a in args]
            r = vals[0]
            for v in vals[1:]:
                r = z3.If(v < r, v, r) if n == "min" else z3.If(v > r, v, r)
            return simp(r)
        if n == "abs":
            a = self.as_int(args[0])
            return simp(z3.If(a < 0, -a, a))
        if n == "int":
            a = args[0]
            if isinstance(a, RatV):
                cd = concrete_int(a.den)
                if cd is None or cd <= 0:
                    raise Unsupported("int(a / b) with non-literal divisor")
                if not fr.spec:
                    self.assumptions_used.add("int(a / c): float division then truncation equals exact truncating "
                                              "division (obligation |a| < 2^50 discharged at each site)")
                    self.oblige("float-exact", z3.And(a.num < 2 ** 50, a.num > -(2 ** 50)), f"L{node.lineno}")
                return simp(trunc_div(a.num, a.den))
            return self.as_int(a)
        if n == "bool":
            return self.truth(args[0])
        if n == "range":
            if len(args) == 1:
                return RangeV(I(0), self.as_int(args[0]))
            if len(args) == 2:
                return RangeV(self.as_int(args[0]), self.as_int(args[1]))
            raise Unsupported("range step")
        if n == "trigger" or n == "pyvc.api.trigger":
            f = z3.Function(f"TRG{len(args)}", *([INT] * len(args) + [BOOL]))
            t = f(*[self.as_int(a) for a in args])
            if getattr(self, "quant_depth", 0) > 0:
                self.quant_triggers.append(t)
            else:
                # sound: every contract is proved for all interpretations of TRG, in particular TRG = true
                self.pc.append(t)
            return t
        if n == "implies":
            return simp(z3.Implies(self.truth(args[0]), self.truth(args[1])))
        if n in ("cast", "typing.cast"):
            return args[1]
        if n in ("ord", "chr"):
            return self.as_int(args[0])      # str values are sequences of code points
        if n == "print":
            return NONE
        if n in ("str", "repr"):
            return OpaqueV("str()")
        if n == "bytes":
            s = self.seq(args[0])
            if s is None:
                raise Unsupported("bytes(...) of non-sequence")
            if s.kind == "list":
                cn = concrete_int(s.n)
                if cn is None:
                    raise Unsupported("bytes(list) with symbolic length")
                if not fr.spec:
                    for j in range(cn):
                        self.byte_range(s.get(I(j)), f"L{node.lineno}[{j}]")
            return self.alloc(s.with_kind("bytes"))
        if n == "bytearray":
            if not args:
                return self.alloc(self.lit_seq("bytearray", []))
            a = args[0]
            if is_int(a):
                if not fr.spec:
                    self.oblige("nonneg", a >= 0, f"bytearray-size-L{node.lineno}")
                return self.alloc(SeqV("bytearray", lambda j: I(0), a))
            s = self.seq(a)
            if s is None:
                raise Unsupported("bytearray(...) argument")
            if s.kind == "str":
                # bytearray(string, 'windows-1252', 'replace'): external codec, pointwise table E
                enc = self.seq(args[1]) if len(args) > 1 else None
                err = self.seq(args[2]) if len(args) > 2 else None
                if enc is None or enc.lit != "windows-1252" or err is None or err.lit != "replace":
                    raise Unsupported("bytearray(str, ...) with another codec")
                return self.alloc(SeqV("bytearray", (lambda g: (lambda j: self.reg.E(g(j))))(s.get), s.n))
            if s.kind == "list" and not fr.spec:
                cn = concrete_int(s.n)
                if s.lit is None:
                    if cn is None:
                        # constant sequence [c]*n
                        self.byte_range(s.get(I(0)), f"L{node.lineno}")
                    else:
                        for j in range(cn):
                            self.byte_range(s.get(I(j)), f"L{node.lineno}[{j}]")
            return self.alloc(s.with_kind("bytearray"))
        if n == "memoryview":
            s = self.seq(args[0])
            if s is None:
                raise Unsupported("memoryview arg")
            return self.alloc(s.with_kind("memoryview"))
        if n in ("tuple", "list"):
            s = self.seq(args[0]) if args else None
            if not args:
                return self.alloc(self.lit_seq(n, []))
            if s is None:
                raise Unsupported(n + " arg")
            return self.alloc(s.with_kind(n))
        if n == "isinstance" and self.opaque_mode() and isinstance(args[0], OpaqueV):
            return self.fresh("opaque_isinstance", BOOL)
        if n == "isinstance":
            o = self.obj(args[0])
            if o is not None and isinstance(args[1], ClsV):
                kinds = self.reg.kinds_of(o.cls, args[1].ci)
                if kinds is not None and "kind" in o.fields:
                    return simp(z3.Or(*[o.fields["kind"] == k for k in kinds])) if kinds else z3.BoolVal(False)
                return z3.BoolVal(o.cls.is_subclass_of(args[1].ci.qualname))
            raise Unsupported("isinstance")
        if n == "object.__init__":
            return NONE
        if n == "pyvc.api.ghost_copy":
            sq = self.seq(args[0])
            if sq is None:
                raise Unsupported("ghost_copy of non-sequence")
            return self.alloc(SeqV(sq.kind, sq.get, sq.n, sq.lit))
        if n == "pystr.isdigit":
            return ISDIGIT(f.recv.t)
        if n == "pystr.lower":
            if f.recv.lit is not None:
                return self.pstr_lit(f.recv.lit.lower())
            return PStr(LOWER(f.recv.t))
        if n == "dict.get":
            k = self.as_pstr(args[0]) if args and args[0] is not NONE else None
            dflt = args[1] if len(args) > 1 else NONE
            if args and args[0] is NONE:
                return dflt
            if k is None or not is_bool(dflt):
                if self.opaque_mode():
                    return OpaqueV("dict.get")
                raise Unsupported("dict.get outside the supported shape (str key, bool default)")
            return simp(z3.If(f.recv.inn(k.t), f.recv.val(k.t), dflt))
        if n.startswith("seq."):
            return self.seq_method(n[4:], f.recv, args, kwargs, fr, node)
        ext = self.reg.external(n)
        if ext is not None:
            return ext(self, args, kwargs, fr, node)
        raise Unsupported(f"builtin {n} in {self.fname}")

    def seq_method(self, name, recv, args, kwargs, fr, node):
        s = self.seq(recv)
        if name == "append":
            self.require_mutable(s)
            v = self.as_int(args[0])
            if s.kind == "bytearray" and not fr.spec:
                self.byte_range(v, f"append-L{node.lineno}")
            one = self.lit_seq(s.kind, [v])
            self.heap[recv.id] = self.seq_concat(s, one)
            return NONE
        if name == "extend":
            self.require_mutable(s)
            o = self.seq(args[0])
            if o is None:
                raise Unsupported("extend arg")
            self.heap[recv.id] = self.seq_concat(s, o)
            return NONE
        if name == "copy":
            return self.alloc(SeqV(s.kind, s.get, s.n, s.lit))
        if name == "reverse":
            self.require_mutable(s)
            self.heap[recv.id] = SeqV(s.kind, (lambda g, n: (lambda j: g(n - 1 - j)))(s.get, s.n), s.n)
            return NONE
        if name == "find":
            needle = self.seq(args[0])
            cn = concrete_int(needle.n) if needle is not None else None
            if cn != 1 or len(args) != 1:
                raise Unsupported("find with non single byte needle")
            b = needle.get(I(0))
            r = self.fresh("find")
            k = z3.Int("k!f")
            self.assumptions_used.add("bytearray.find(one byte): returns the first index holding it, else -1 (builtin)")
            self.pc.append(z3.Or(
                z3.And(r == -1, z3.ForAll([k], z3.Implies(z3.And(0 <= k, k < s.n), s.get(k) != b))),
                z3.And(0 <= r, r < s.n, s.get(r) == b,
                       z3.ForAll([k], z3.Implies(z3.And(0 <= k, k < r), s.get(k) != b)))))
            return r
        if name == "decode":
            enc = self.seq(args[0]) if args else None
            err = self.seq(args[1]) if len(args) > 1 else None
            if enc is None or enc.lit != "windows-1252" or err is None or err.lit != "replace":
                raise Unsupported("decode with another codec")
            return self.alloc(SeqV("str", (lambda g: (lambda j: self.reg.D(g(j))))(s.get), s.n))
        raise Unsupported(f"sequence method {name}")

    def require_mutable(self, s):
        if s.kind not in MUTABLE_KINDS:
            raise Unsupported(f"mutation of {s.kind}")

    # ------------------------------------------------------------ statements
    def exec_block(self, stmts, fr):
        for s in stmts:
            self.exec_stmt(s, fr)

    def exec_stmt(self, s, fr):
        m = getattr(self, "st_" + type(s).__name__, None)
        if m is None:
            raise Unsupported(f"statement {type(s).__name__} in {self.fname}")
        m(s, fr)

    def st_Pass(self, s, fr):
        pass

    def st_ImportFrom(self, s, fr):
        # function-local `from m import X`: bind X as module-level name resolution would
        m = repo.load_module(s.module) if s.module and not s.level else None
        for a in s.names:
            if m is not None:
                fr.env[a.asname or a.name] = self.lookup_name(a.name, Frame(None, m, {}, spec=fr.spec))
            elif self.opaque_mode():
                fr.env[a.asname or a.name] = OpaqueV("import:" + a.name)
            else:
                raise Unsupported(f"import of {s.module}.{a.name}")

    def st_Expr(self, s, fr):
        if isinstance(s.value, ast.Constant):
            return
        self.ev(s.value, fr)

    def st_Assert(self, s, fr):
        c = self.truth(self.ev(s.test, fr))
        self.oblige("assert", c, f"L{s.lineno}")
        self.assume(c)

    def st_Return(self, s, fr):
        raise ReturnSig(self.ev(s.value, fr) if s.value is not None else NONE)

    def st_Break(self, s, fr):
        raise BreakSig()

    def st_Continue(self, s, fr):
        raise ContinueSig()

    def st_Raise(self, s, fr):
        if s.exc is None:
            raise Unsupported("bare raise")
        v = self.ev(s.exc, fr)
        if isinstance(v, ExcV):
            raise PyExc(v.name, s)
        if isinstance(v, ExcClsV):
            raise PyExc(v.name, s)
        raise Unsupported("raise of non-exception")

    def st_Assign(self, s, fr):
        v = self.ev(s.value, fr)
        for t in s.targets:
            self.assign(t, v, fr, s)

    def st_AnnAssign(self, s, fr):
        if s.value is None:
            return
        self.assign(s.target, self.ev(s.value, fr), fr, s)

    def st_AugAssign(self, s, fr):
        load = ast.copy_location(ast.BinOp(left=self._as_load(s.target), op=s.op, right=s.value), s)
        v = self.ev(load, fr)
        self.assign(s.target, v, fr, s)

    def _as_load(self, t):
        if isinstance(t, ast.Name):
            return ast.copy_location(ast.Name(id=t.id, ctx=ast.Load()), t)
        if isinstance(t, ast.Attribute):
            return ast.copy_location(ast.Attribute(value=t.value, attr=t.attr, ctx=ast.Load()), t)
        if isinstance(t, ast.Subscript):
            return ast.copy_location(ast.Subscript(value=t.value, slice=t.slice, ctx=ast.Load()), t)
        raise Unsupported("augassign target")

    def assign(self, t, v, fr, s):
        if isinstance(t, ast.Name):
            fr.env[t.id] = v
            return
        if isinstance(t, ast.Tuple):
            if isinstance(v, TupleV) and len(v.items) == len(t.elts):
                for e, x in zip(t.elts, v.items):
                    self.assign(e, x, fr, s)
                return
            raise Unsupported("tuple unpack")
        if isinstance(t, ast.Attribute):
            base = self.ev(t.value, fr)
            o = self.obj(base)
            if o is None:
                raise Unsupported("attribute store on non-object")
            pr = o.cls.find_prop(t.attr) if o.cls is not None else None
            if pr is not None and t.attr not in o.fields:
                if "set" not in pr:
                    raise PyExc("AttributeError", s)
                self.call_user(pr["set"], [base, v], {}, fr, s)
                return
            o.fields[t.attr] = v
            return
        if isinstance(t, ast.Subscript):
            base = self.ev(t.value, fr)
            if isinstance(base, OpaqueV) and self.opaque_mode():
                self.ev(t.slice, fr)
                return                          # a store into an opaque container: nothing tracked depends on it
            sq = self.seq(base)
            if sq is None:
                raise Unsupported("subscript store on non-sequence")
            self.require_mutable(sq)
            if isinstance(t.slice, ast.Slice):
                if t.slice.step is not None:
                    raise Unsupported("slice step")
                rhs = self.seq(v)
                if rhs is None:
                    raise Unsupported("slice store of non-sequence")
                lo = self.as_int(self.ev(t.slice.lower, fr)) if t.slice.lower is not None else None
                hi = self.as_int(self.ev(t.slice.upper, fr)) if t.slice.upper is not None else None
                left = self.seq_slice(sq, None, lo) if lo is not None else self.lit_seq(sq.kind, [])
                # python: if hi < lo the slice is empty at lo
                if hi is None:
                    right = self.lit_seq(sq.kind, [])
                else:
                    lo_n = left.n
                    right_full = self.seq_slice(sq, hi, None)
                    right_at_lo = self.seq_slice(sq, lo if lo is not None else I(0), None)
                    hi_n = self.seq_slice(sq, None, hi).n
                    right = self.merge_seq(simp(hi_n >= lo_n), right_full, right_at_lo)
                self.heap[base.id] = self.seq_concat(self.seq_concat(left, rhs, sq.kind), right, sq.kind)
                return
            i = self.as_int(self.ev(t.slice, fr))
            val = self.as_int(v)
            self.oblige("index", z3.And(i >= -sq.n, i < sq.n), f"store-L{s.lineno}")
            if sq.kind == "bytearray":
                self.byte_range(val, f"store-L{s.lineno}")
            idx = simp(z3.If(i < 0, i + sq.n, i))
            self.heap[base.id] = SeqV(sq.kind,
                                      (lambda g, idx, val: (lambda j: z3.If(j == idx, val, g(j))))(sq.get, idx, val),
                                      sq.n)
            return
        raise Unsupported("assignment target")

    # ---- if with merging
    def mergeable(self, stmts):
        for s in stmts:
            for n in ast.walk(s):
                if isinstance(n, (ast.Return, ast.Break, ast.Continue, ast.Raise, ast.While, ast.For,
                                  ast.Try, ast.With)):
                    return False
                if isinstance(n, ast.Call):
                    if not self.reg.call_is_pure_syntactic(n):
                        return False
        return True

    def snapshot(self, fr):
        heap = {}
        for k, v in self.heap.items():
            heap[k] = ObjV(v.cls, dict(v.fields)) if isinstance(v, ObjV) else v
        return dict(fr.env), heap, len(self.pc)

    def st_If(self, s, fr):
        c = self.truth(self.ev(s.test, fr))
        sc = simp(c)
        if z3.is_true(sc):
            return self.exec_block(s.body, fr)
        if z3.is_false(sc):
            return self.exec_block(s.orelse, fr)
        if self.mergeable(s.body) and self.mergeable(s.orelse):
            env0, heap0, npc = self.snapshot(fr)
            base_pc = list(self.pc)
            try:
                self.pc.append(c)
                self.exec_block(s.body, fr)
                env1, heap1, pc1 = fr.env, self.heap, self.pc[npc + 1:]
                fr.env = dict(env0)
                self.heap = {k: (ObjV(v.cls, dict(v.fields)) if isinstance(v, ObjV) else v) for k, v in heap0.items()}
                self.pc = base_pc + [z3.Not(c)]
                self.exec_block(s.orelse, fr)
                env2, heap2, pc2 = fr.env, self.heap, self.pc[npc + 1:]
                self.pc = base_pc + [z3.Implies(c, p) for p in pc1] + [z3.Implies(z3.Not(c), p) for p in pc2]
                self.heap = {}
                # merge heaps first (ids allocated in only one arm are kept as is)
                for k in sorted(set(heap1) | set(heap2)):
                    a, b = heap1.get(k), heap2.get(k)
                    if a is None or b is None:
                        self.heap[k] = a if a is not None else b
                    elif isinstance(a, SeqV):
                        self.heap[k] = self.merge_seq(c, a, b)
                    else:
                        self.heap[k] = a      # fields merged below
                for k in sorted(set(heap1) & set(heap2)):
                    a, b = heap1[k], heap2[k]
                    if isinstance(a, ObjV):
                        flds = {}
                        for fn in sorted(set(a.fields) | set(b.fields)):
                            if fn in a.fields and fn in b.fields:
                                flds[fn] = self.merge_val(c, a.fields[fn], b.fields[fn])
                            else:
                                raise Unsupported("field defined in one arm only")
                        self.heap[k] = ObjV(a.cls, flds)
                env = {}
                for k in sorted(set(env1) | set(env2)):
                    if k in env1 and k in env2:
                        env[k] = self.merge_val(c, env1[k], env2[k])
                    # a name bound in one arm only is dropped: reading it later is an error of the code
                fr.env = env
                return
            except Unsupported as e:
                if "cannot merge" not in str(e) and "one arm only" not in str(e):
                    raise
                fr.env = dict(env0)
                self.heap = heap0
                self.pc = base_pc
        if self.branch(c):
            self.exec_block(s.body, fr)
        else:
            self.exec_block(s.orelse, fr)

    # ---- try
    def st_Try(self, s, fr):
        try:
            try:
                self.exec_block(s.body, fr)
            except PyExc as e:
                for h in s.handlers:
                    names = []
                    if h.type is None:
                        names = None
                    elif isinstance(h.type, ast.Name):
                        names = [h.type.id]
                    elif isinstance(h.type, ast.Tuple):
                        names = [x.id for x in h.type.elts]
                    if names is None or e.cls in names or "Exception" in names:
                        if h.name:
                            fr.env[h.name] = ExcV(e.cls)
                        self.exec_block(h.body, fr)
                        break
                else:
                    raise
            else:
                self.exec_block(s.orelse, fr)
        except (PyExc, ReturnSig, BreakSig, ContinueSig):
            self.exec_block(s.finalbody, fr)
            raise
        self.exec_block(s.finalbody, fr)

    # ---- loops
    def loop_ordinal(self, fr, node):
        fi = fr.fi
        # ordinals are syntactic (pre-order over the function's AST), not execution order
        loops = [n for n in _preorder(fi.node) if isinstance(n, (ast.While, ast.For))]
        return loops.index(node)

    def modified_in(self, stmts, fr):
        names = set()
        objs = set()       # names / attribute chains whose referenced heap object is mutated
        elem_only = {}
        for s in stmts:
            for n in _preorder(s):
                tgts = []
                if isinstance(n, ast.Assign):
                    tgts = n.targets
                elif isinstance(n, (ast.AugAssign, ast.AnnAssign)):
                    tgts = [n.target]
                elif isinstance(n, ast.For):
                    tgts = [n.target]
                for t in tgts:
                    for tt in (t.elts if isinstance(t, ast.Tuple) else [t]):
                        if isinstance(tt, ast.Name):
                            names.add(tt.id)
                        elif isinstance(tt, ast.Subscript):
                            objs.add(ast.unparse(tt.value))
                            if isinstance(tt.slice, ast.Slice):
                                elem_only[ast.unparse(tt.value)] = False
                            else:
                                elem_only.setdefault(ast.unparse(tt.value), True)
                        elif isinstance(tt, ast.Attribute):
                            objs.add("." + ast.unparse(tt))
                if isinstance(n, ast.Call):
                    for path, eo in self.reg.call_mutates_syntactic(n, fr, self):
                        objs.add(path)
                        if not eo:
                            elem_only[path] = False
        return names, objs, elem_only

    def havoc_loop(self, names, objs, elem_only, fr):
        for nm in sorted(names):
            if nm in fr.env:
                v = fr.env[nm]
                if is_int(v):
                    fr.env[nm] = self.fresh(nm)
                elif is_bool(v):
                    fr.env[nm] = self.fresh(nm, BOOL)
                elif isinstance(v, Ref) and self.seq(v) is not None:
                    sq = self.seq(v)
                    fr.env[nm] = self.alloc(self.fresh_seq(sq.kind, nm))
                else:
                    raise Unsupported(f"havoc of {nm} = {v!r}")
        for path in sorted(objs):
            if path.startswith("."):
                # attribute store: path = .<expr>.attr
                expr = ast.parse(path[1:], mode="eval").body
                base = self.ev(expr.value, fr)
                o = self.obj(base)
                if o is None:
                    raise Unsupported("havoc attribute of non-object")
                old = o.fields.get(expr.attr)
                if old is None:
                    continue
                if is_int(old):
                    o.fields[expr.attr] = self.fresh(expr.attr)
                elif is_bool(old):
                    o.fields[expr.attr] = self.fresh(expr.attr, BOOL)
                elif isinstance(old, Ref) and self.seq(old) is not None:
                    o.fields[expr.attr] = self.alloc(self.fresh_seq(self.seq(old).kind, expr.attr))
                else:
                    raise Unsupported("havoc attribute kind")
                continue
            try:
                ref = self.ev(ast.parse(path, mode="eval").body, fr)
            except Unsupported:
                continue
            sq = self.seq(ref)
            if sq is None:
                continue
            nsq = self.fresh_seq(sq.kind, path.replace(".", "_"))
            if elem_only.get(path, False):
                self.pc.append(nsq.n == sq.n)
                nsq = SeqV(nsq.kind, nsq.get, sq.n, arr=nsq.arr)
            self.heap[ref.id] = nsq

    # ---- "havoc and forget": facts about pre-havoc versions of modified state are dropped at a
    # loop head (sound: fewer assumptions; the invariant has to be self-contained anyway)
    def consts_of(self, t, acc, seen):
        if t.get_id() in seen:
            return
        seen.add(t.get_id())
        if z3.is_quantifier(t):
            self.consts_of(t.body(), acc, seen)
            return
        if z3.is_app(t):
            if t.num_args() == 0 and t.decl().kind() == z3.Z3_OP_UNINTERPRETED:
                acc.add(t.decl().name())
            for ch in t.children():
                self.consts_of(ch, acc, seen)

    def syms_of_val(self, v, acc, seen, seen_refs):
        if isinstance(v, z3.ExprRef):
            self.consts_of(v, acc, seen)
        elif isinstance(v, Ref):
            if v.id in seen_refs:
                return
            seen_refs.add(v.id)
            o = self.heap.get(v.id)
            if isinstance(o, SeqV):
                self.syms_of_val(o, acc, seen, seen_refs)
            elif isinstance(o, ObjV):
                for fv in o.fields.values():
                    self.syms_of_val(fv, acc, seen, seen_refs)
        elif isinstance(v, SeqV):
            k = z3.Int("k!sym")
            self.consts_of(v.get(k), acc, seen)
            self.consts_of(v.n if isinstance(v.n, z3.ExprRef) else I(v.n), acc, seen)
        elif isinstance(v, TupleV):
            for x in v.items:
                self.syms_of_val(x, acc, seen, seen_refs)

    def live_symbols(self, fr):
        acc, seen, seen_refs = set(), set(), set()
        for f in self.frames + [fr]:
            for v in f.env.values():
                self.syms_of_val(v, acc, seen, seen_refs)
        for v in self.entry_scope.values():
            self.syms_of_val(v, acc, seen, seen_refs)
        return acc

    def forget_dead(self, before, fr):
        dead = before - self.live_symbols(fr)
        dead.discard("k!sym")
        if not dead:
            return
        keep = []
        for f in self.pc:
            acc = set()
            self.consts_of(f, acc, set())
            if not (acc & dead):
                keep.append(f)
        self.pc = keep

    def loop_spec(self, fr, node):
        con = self.reg.contract_for_frame(fr)
        if con is None:
            return None
        ordn = self.loop_ordinal(fr, node)
        return con.loop(ordn), ordn

    def check_invariants(self, spec, ordn, fr, kind):
        if spec is None:
            return
        for idx, (clause, cfr) in enumerate(self.reg.loop_clauses(self, spec, fr)):
            t = self.truth(self.ev(clause, cfr))
            self.oblige(kind, t, f"loop{ordn}[{idx}]", {"clause": ast.unparse(clause)})

    def assume_invariants(self, spec, fr):
        if spec is None:
            return
        for clause, cfr in self.reg.loop_clauses(self, spec, fr):
            self.assume(self.truth(self.ev(clause, cfr)))

    def st_While(self, s, fr):
        ls = self.loop_spec(fr, s)
        if ls is None or ls[0] is None:
            raise Unsupported(f"while loop without invariant in {self.fname}")
        spec, ordn = ls
        self.run_loop(spec, ordn, fr, s.body, cond=lambda: self.truth(self.ev(s.test, fr)), step=None)

    def run_loop(self, spec, ordn, fr, body, cond, step, pre_bind=None):
        names, objs, elem_only = self.modified_in(body, fr)
        if pre_bind:
            names |= set(pre_bind)
        self.check_invariants(spec, ordn, fr, "inv-init")
        k = self.choose(2)
        before = self.live_symbols(fr)
        self.havoc_loop(names - set(pre_bind or ()), objs, elem_only, fr)
        if pre_bind:
            for nm, mk in pre_bind.items():
                fr.env.pop(nm, None)
        self.forget_dead(before, fr)
        if pre_bind:
            for nm, mk in pre_bind.items():
                fr.env[nm] = mk()
        self.assume_invariants(spec, fr)
        c = cond()
        if k == 0:
            self.assume(c)
            if not self.feasible():
                raise PathEnd()
            var0 = self.reg.loop_variant(self, spec, fr)
            try:
                self.exec_block(body, fr)
            except ContinueSig:
                pass
            except BreakSig:
                return
            if step:
                step()
            if spec is not None and spec.get("on_step"):
                spec["on_step"](self, fr)
            self.check_invariants(spec, ordn, fr, "inv-pres")
            if var0 is not None:
                var1 = self.reg.loop_variant(self, spec, fr)
                if isinstance(var0, tuple):
                    # lexicographic pair of non-negative measures
                    (a0, b0), (a1, b1) = var0, var1
                    self.oblige("variant", z3.And(a0 >= 0, b0 >= 0, z3.Or(a1 < a0, z3.And(a1 == a0, b1 < b0))),
                                f"loop{ordn}")
                else:
                    self.oblige("variant", z3.And(var0 >= 0, var1 < var0), f"loop{ordn}")
            raise PathEnd()
        self.assume(z3.Not(c))
        if not self.feasible():
            raise PathEnd()
        # optional proof hints at loop exit: each is proved from (invariant and not cond), then assumed
        if spec is not None and spec.get("exit") and "contract" in spec:
            con = spec["contract"]
            for idx, (clause, cfr) in enumerate(self.reg.loop_clauses(self, dict(spec, inv=spec["exit"]), fr)):
                t = self.truth(self.ev(clause, cfr))
                self.oblige("loop-exit-hint", t, f"loop{ordn}[{idx}]", {"clause": ast.unparse(clause)})
                self.assume(t)

    def st_For(self, s, fr):
        if s.orelse:
            raise Unsupported("for-else")
        it = self.ev(s.iter, fr)
        if self.opaque_mode() and isinstance(s.target, ast.Name) and not isinstance(it, RangeV) and \
                (isinstance(it, OpaqueV) or (self.obj(it) is not None and self.seq(it) is None)):
            return self.for_opaque(s, fr)
        if not isinstance(it, RangeV) or not isinstance(s.target, ast.Name):
            raise Unsupported(f"for over non-range in {self.fname}")
        ls = self.loop_spec(fr, s)
        spec, ordn = ls if ls is not None else (None, None)
        var = s.target.id
        start, stop = it.start, it.stop
        unroll = spec.get("unroll") if spec else None
        if unroll is not None:
            broke = False
            for k in range(unroll):
                c = simp(start + k < stop)
                if not self.branch(c):
                    break
                fr.env[var] = simp(start + k)
                try:
                    self.exec_block(s.body, fr)
                except ContinueSig:
                    continue
                except BreakSig:
                    broke = True
                    break
            else:
                self.oblige("unwind", z3.Not(start + unroll < stop), f"loop{ordn}")
                self.assume(z3.Not(start + unroll < stop))
            return
        if spec is None:
            raise Unsupported(f"for loop without invariant in {self.fname}")
        # the loop variable at the loop head denotes the index of the next iteration
        fr.env[var] = start
        cnt = {"v": None}

        def mk():
            v = self.fresh(var)
            cnt["v"] = v
            self.pc.append(z3.And(start <= v, z3.Or(v <= stop, v == start)))
            return v

        def cond():
            return fr.env[var] < stop if False else cnt["v"] < stop

        def step():
            fr.env[var] = simp(cnt["v"] + 1)
        # auto invariant (range semantics) as init obligation is trivial: start <= start
        self.run_loop(spec, ordn, fr, s.body, cond, step, pre_bind={var: mk})
        # after normal exit the loop variable must not be read (python leaves stop-1 / unbound)
        fr.env.pop(var, None)


def _for_opaque(self, s, fr):
    """`for x in <opaque iterable>` inside a function whose contract declares its calls opaque (an XML
    element's children, a findall result): any number of iterations, every element an opaque value.
    Invariants (inv_k) are optional: without one the loop still runs from a havoced state"""
    ls = self.loop_spec(fr, s)
    spec, ordn = ls if ls is not None else (None, self.loop_ordinal(fr, s))
    var = s.target.id
    n = self.fresh("n_elems")
    self.pc.append(n >= 0)
    cnt = {"v": None}

    def mk():
        v = self.fresh("it")
        cnt["v"] = v
        self.pc.append(z3.And(0 <= v, v <= n))
        return OpaqueV("element:" + var)

    def cond():
        return cnt["v"] < n
    self.run_loop(spec, ordn, fr, s.body, cond, None, pre_bind={var: mk})
    fr.env.pop(var, None)


Exec.for_opaque = _for_opaque


def _simple_getter(fi):
    """a property whose body is `return self.<attr>` or a comparison / boolean test over self's attributes:
    inlined even where calls are opaque"""
    body = [st for st in fi.body() if not (isinstance(st, ast.Expr) and isinstance(st.value, ast.Constant))]
    if len(body) != 1 or not isinstance(body[0], ast.Return) or body[0].value is None:
        return False
    # `return <expression over self's attributes>`: no calls, no names other than self
    for n in ast.walk(body[0].value):
        if isinstance(n, (ast.Call, ast.Lambda, ast.ListComp, ast.GeneratorExp, ast.JoinedStr, ast.BinOp)):
            return False
        if isinstance(n, ast.Name) and n.id not in ("self", "None", "True", "False"):
            return False
    return True


def _preorder(node):
    yield node
    for ch in ast.iter_child_nodes(node):
        yield from _preorder(ch)
