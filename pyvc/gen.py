"""E2: per-program deductive verification of the classes the generator emits.

For one specification tree: /repo's real generator is run (current working tree), the emitted
modules are parsed, and every emitted class's __init__ / serialize / deserialize is executed
symbolically (pyvc.exec) against contracts derived mechanically from the XML by xmlsem.
Byte strings are z3 sequences; writer and reader are *abstract*: their operations are the
contracts of the real EoWriter / EoReader (C09 / C05, proved there against the real bodies)
restated over the sequence theory / over uninterpreted state transformers.

Strength: for each program all objects / all byte strings; the set of programs is enumerated."""
import ast
import itertools
import z3

from . import repo
from .exec import (Exec, Frame, Unsupported, PathEnd, PyExc, ReturnSig, BreakSig, ContinueSig, Ref, SeqV, ObjV,
                   ClsV, FuncV, BuiltinV, ExcV, ExcClsV, OpaqueV, TupleV, RangeV, NONE, I, INT, BOOL, is_int,
                   is_bool, simp, concrete_int, _preorder, Obligation)
from xmlsem import ir as X

BYTES = z3.SeqSort(INT)
OBJ = z3.DeclareSort("Obj")
RS = z3.DeclareSort("RState")
SEQ_OBJ = z3.SeqSort(OBJ)
SEQ_STR = z3.SeqSort(BYTES)
EMPTY = z3.Empty(BYTES)

WRITER_Q = "eolib.data.eo_writer.EoWriter"
READER_Q = "eolib.data.eo_reader.EoReader"


class ZSeq:
    """a z3 sequence value: bytes / str (code points) / tuple of ints / objects / strings"""
    __slots__ = ("t", "elem", "nonneg", "mutable")

    def __init__(self, t, elem="int", nonneg=False, mutable=False):
        self.t = t
        self.elem = elem      # int | obj:<class> | str
        self.nonneg = nonneg  # domain: integer elements are >= 0 (instantiated at each access)
        self.mutable = mutable  # a bytearray / list (as opposed to bytes / str / tuple)


class MaybeV:
    """a value that may be None: (isnone, val)"""
    __slots__ = ("isnone", "val")

    def __init__(self, isnone, val):
        self.isnone = isnone
        self.val = val


class ObjSym:
    """a symbolic instance of a generated class (opaque: fields via WIRE_/VALID_ functions)"""
    __slots__ = ("t", "cls")

    def __init__(self, t, cls):
        self.t = t
        self.cls = cls


class EmptyList:
    pass


def unit_of(v):
    if isinstance(v, ObjSym):
        return z3.Unit(v.t), "obj:" + (v.cls or "")
    if isinstance(v, ZSeq):
        return z3.Unit(v.t), "str"
    if z3.is_bool(v):
        return z3.Unit(z3.If(v, I(1), I(0))), "int"      # a bool element in a list modelled as a sequence of integers
    return z3.Unit(v), "int"


# ---------------------------------------------------------------- vocabulary shared by code side and spec side
class Vocab:
    def __init__(self):
        self.ENC = z3.Function("ENC", INT, INT, BYTES)                # value, width(0=byte) -> bytes
        self.SB = z3.Function("SB", BYTES, BOOL, BYTES)               # cp1252 image, sanitised iff flag
        self.ES = z3.Function("ES", BYTES, BYTES)                     # EO string encoding
        self.PAD = z3.Function("PAD", INT, BYTES)                     # n bytes 0xFF
        self.CLSOF = z3.Function("CLSOF", OBJ, INT)
        self.cls_ids = {}
        self.fns = {}
        # reader algebra
        self.CH = z3.Function("CH", RS, BOOL)
        self.POS = z3.Function("POS", RS, INT)
        self.REM = z3.Function("REM", RS, INT)
        self.TOT = z3.Function("TOT", RS, INT)
        self.CSR = z3.Function("CSR", RS, INT)      # len(data) - chunk_start
        self.SETCH = z3.Function("SETCH", RS, BOOL, RS)
        self.SKIP = z3.Function("SKIP", RS, INT, RS)
        self.NEXT = z3.Function("NEXT", RS, RS)
        self.VINT = z3.Function("VINT", RS, INT, INT)                 # state, width(0=byte) -> decoded value
        self.VSTR = z3.Function("VSTR", RS, INT, BOOL, BOOL, BYTES)   # state, length, padded, encoded -> string
        self.VBLOB = z3.Function("VBLOB", RS, BYTES)

    def cls_id(self, name):
        if name not in self.cls_ids:
            self.cls_ids[name] = len(self.cls_ids) + 1
        return self.cls_ids[name]

    def fn(self, name, *sorts):
        key = (name,) + tuple(str(s) for s in sorts)
        if key not in self.fns:
            self.fns[key] = z3.Function(name, *sorts)
        return self.fns[key]

    def WIRE(self, cls):
        return self.fn("WIRE_" + cls.replace(".", "_"), OBJ, BOOL, BYTES)

    def VALID(self, cls):
        return self.fn("VALID_" + cls.replace(".", "_"), OBJ, BOOL)

    def PARSEV(self, cls):
        return self.fn("PARSE_" + cls.replace(".", "_"), RS, OBJ)

    def PARSES(self, cls):
        return self.fn("PSTATE_" + cls.replace(".", "_"), RS, RS)

    def PARSEOK(self, cls):
        return self.fn("POK_" + cls.replace(".", "_"), RS, BOOL)

    # ground axiom instances
    def enc(self, ex, v, under):
        w = 0 if under == "byte" else X.INT_WIDTH[under]
        t = self.ENC(v, I(w))
        ex.fact(z3.Length(t) == (1 if w == 0 else w))
        return t

    def sb(self, ex, s, san):
        t = self.SB(s, san)
        ex.fact(z3.Length(t) == z3.Length(s))
        return t

    def es(self, ex, b):
        t = self.ES(b)
        ex.fact(z3.Length(t) == z3.Length(b))
        return t

    def pad(self, ex, n):
        t = self.PAD(n)
        ex.fact(z3.Implies(n >= 0, z3.Length(t) == n))
        ex.fact(z3.Implies(n <= 0, t == EMPTY))
        return t

    # reader transformers with their ground facts: contracts.spec.RA_* evaluated on the observations of
    # the two states (the same texts are proved over the C05 contracts in lemmas.reader_algebra and
    # evaluated on the real EoReader in checks.extras.reader_algebra)
    def obs(self, s):
        return [self.CH(s), self.POS(s), self.REM(s), self.TOT(s), self.CSR(s)]

    def lex_le(self, t, s):
        """reader measure (data beyond the chunk start, data beyond the position) of t <= that of s"""
        return z3.Or(self.CSR(t) < self.CSR(s), z3.And(self.CSR(t) == self.CSR(s), self.TOT(t) <= self.TOT(s)))

    def lex_lt(self, t, s):
        return z3.Or(self.CSR(t) < self.CSR(s), z3.And(self.CSR(t) == self.CSR(s), self.TOT(t) < self.TOT(s)))

    def ra(self, ex, name, *args):
        from .exec import Frame
        from . import repo
        fi = repo.load_module("contracts.spec").functions[name]
        env = dict(zip(fi.params, args))
        v = ex.spec_call(fi, env, Frame(None, fi.module, {}, spec=True))
        return ex.truth(v)

    def skip(self, ex, s, n):
        t = self.SKIP(s, n)
        ex.fact(z3.Implies(n >= 0, self.ra(ex, "RA_SKIP", n, *(self.obs(s) + self.obs(t)))))
        return t

    def setch(self, ex, s, b):
        t = self.SETCH(s, b)
        ex.fact(self.ra(ex, "RA_SETCH", b, *(self.obs(s) + self.obs(t))))
        ex.fact(z3.Implies(self.CH(s) == b, t == s))           # setting the mode it already has changes nothing
        return t

    def next(self, ex, s):
        t = self.NEXT(s)
        ex.fact(self.ra(ex, "RA_NEXT", *(self.obs(s) + self.obs(t))))
        return t

    def state_ok(self, ex, s):
        return self.ra(ex, "RA_STATE", self.CH(s), self.REM(s), self.TOT(s), self.CSR(s))

    def state_facts(self, ex, s):
        # 0 <= REM <= TOT; chunk start <= position (class invariant of EoReader, C05), hence data remaining
        # in the current chunk implies data beyond the chunk start
        ex.fact(self.ra(ex, "RA_STATE", self.CH(s), self.REM(s), self.TOT(s), self.CSR(s)))


# ---------------------------------------------------------------- class model derived from the XML
def field_plan(spec, decl):
    """Per generated class: the public fields in constructor order with their kinds, the length
    fields with the field that references them, straight from the XML."""
    fields = []      # dict(name, kind, tref, optional, array, ins)
    lengths = {}
    flat = list(X.flatten_own(decl.body))
    for ins in flat:
        if ins.tag == "length":
            lengths[ins.name] = ins
    for ins in flat:
        if ins.tag == "field" and ins.name is not None:
            tref = X.resolve_type(spec, ins.type, ins.length if ins.type.split(":")[0] in ("string", "encoded_string") else None)
            fields.append(dict(name=ins.name, tref=tref, optional=ins.optional, array=False, ins=ins,
                               hardcoded=ins.value))
        elif ins.tag == "array":
            tref = X.resolve_type(spec, ins.type)
            fields.append(dict(name=ins.name, tref=tref, optional=ins.optional, array=True, ins=ins, hardcoded=None))
        elif ins.tag == "switch":
            fields.append(dict(name=ins.field + "_data", tref=None, optional=True, array=False, ins=ins,
                               hardcoded=None, case_data=True))
    return fields, lengths


class GenExec(Exec):
    """Exec extended with sequence-theory values, optional values, opaque objects and the abstract
    writer / reader."""

    def __init__(self, registry, vocab, spec, objdecls):
        super().__init__(registry, prune=False)
        self.V = vocab
        self.spec = spec
        self.decls = objdecls          # python class name -> X.Obj
        self.inject_failures = True
        self.loop_hook = None

    def fact(self, t):
        self.pc.append(t)

    def lookup_name(self, name, fr):
        try:
            return super().lookup_name(name, fr)
        except Unsupported as u:
            if "unknown name" in str(u) and not fr.spec and name.isidentifier() and not name.startswith("__"):
                # a name the emitted method never bound: NameError / UnboundLocalError at run time
                raise PyExc("UnboundLocalError", None)
            raise

    # ---- value plumbing
    def none_use(self, v, what):
        if v is NONE:
            # definitely None here: fine only if this point is unreachable (the obligation is `false` under the
            # path condition)
            self.oblige("none-use", z3.BoolVal(False), what,
                        {"why": f"{what}: value is None here (TypeError / AttributeError instead of SerializationError)"})
            raise PathEnd()
        if isinstance(v, MaybeV):
            self.oblige("none-use", z3.Not(v.isnone), what,
                        {"why": f"{what}: value may be None here (TypeError / AttributeError instead of SerializationError)"})
            self.assume(z3.Not(v.isnone))
            return v.val
        return v

    def as_int(self, v):
        if isinstance(v, MaybeV) or v is NONE:
            v = self.none_use(v, "int use")
        return super().as_int(v)

    def truth(self, v):
        if isinstance(v, MaybeV):
            inner = v.val
            t = inner if is_bool(inner) else (inner != 0 if is_int(inner) else z3.BoolVal(True))
            return z3.And(z3.Not(v.isnone), t)
        if isinstance(v, ZSeq):
            return z3.Length(v.t) != 0
        if isinstance(v, ObjSym):
            return z3.BoolVal(True)
        return super().truth(v)

    def zseq(self, v):
        if isinstance(v, ZSeq):
            return v
        if isinstance(v, Ref):
            o = self.heap.get(v.id)
            if isinstance(o, ZSeq):
                return o
            if isinstance(o, SeqV) and o.lit is not None and isinstance(o.lit, str):
                return ZSeq(self.lit_bytes([ord(c) for c in o.lit]), "int")
            if isinstance(o, SeqV) and concrete_int(o.n) is not None:
                return ZSeq(self.lit_terms([o.get(I(j)) for j in range(concrete_int(o.n))]), "int")
        return None

    def lit_bytes(self, vals):
        return self.lit_terms([I(v) for v in vals])

    def lit_terms(self, ts):
        if not ts:
            return EMPTY
        if len(ts) == 1:
            return z3.Unit(ts[0])
        return z3.Concat(*[z3.Unit(t) for t in ts])

    def merge_val(self, c, a, b):
        if isinstance(a, MaybeV) or isinstance(b, MaybeV):
            am = a if isinstance(a, MaybeV) else MaybeV(z3.BoolVal(a is NONE), a if a is not NONE else None)
            bm = b if isinstance(b, MaybeV) else MaybeV(z3.BoolVal(b is NONE), b if b is not NONE else None)
            av, bv = am.val, bm.val
            if av is None:
                av = bv
            if bv is None:
                bv = av
            if av is None:
                return NONE
            return MaybeV(simp(z3.If(c, am.isnone, bm.isnone)), self.merge_val(c, av, bv))
        if (a is NONE) != (b is NONE):
            other = b if a is NONE else a
            return MaybeV(simp(c if a is NONE else z3.Not(c)), other)
        if isinstance(a, ZSeq) and isinstance(b, ZSeq):
            return ZSeq(z3.If(c, a.t, b.t), a.elem)
        if isinstance(a, ObjSym) and isinstance(b, ObjSym):
            return ObjSym(z3.If(c, a.t, b.t), a.cls if a.cls == b.cls else None)
        return super().merge_val(c, a, b)

    # ---- expressions
    def cmp(self, op, a, b, fr, node):
        if isinstance(op, (ast.Is, ast.IsNot)) and (isinstance(a, MaybeV) or isinstance(b, MaybeV)):
            m, other = (a, b) if isinstance(a, MaybeV) else (b, a)
            if other is NONE:
                return simp(z3.Not(m.isnone)) if isinstance(op, ast.IsNot) else m.isnone
        if isinstance(op, (ast.Is, ast.IsNot)) and (a is NONE or b is NONE):
            other = b if a is NONE else a
            if isinstance(other, (ZSeq, ObjSym)) or is_int(other) or is_bool(other) or isinstance(other, Ref):
                return z3.BoolVal(isinstance(op, ast.IsNot))
        if isinstance(op, (ast.Eq, ast.NotEq)) and (isinstance(a, MaybeV) or isinstance(b, MaybeV)):
            m, other = (a, b) if isinstance(a, MaybeV) else (b, a)
            if other is NONE:
                r = m.isnone
            else:
                r = z3.And(z3.Not(m.isnone), super().cmp(ast.Eq(), m.val, other, fr, node))
            return simp(z3.Not(r)) if isinstance(op, ast.NotEq) else simp(r)
        if isinstance(op, (ast.Eq, ast.NotEq)):
            za, zb = self.zseq(a), self.zseq(b)
            if za is not None and zb is not None:
                r = za.t == zb.t
                return simp(z3.Not(r)) if isinstance(op, ast.NotEq) else simp(r)
        if isinstance(a, MaybeV):
            a = self.none_use(a, "comparison")
        if isinstance(b, MaybeV):
            b = self.none_use(b, "comparison")
        return super().cmp(op, a, b, fr, node)

    def ev_Subscript(self, node, fr):
        base = self.ev(node.value, fr)
        if isinstance(base, MaybeV):
            base = self.none_use(base, "subscript")
        z = self.zseq(base) if not isinstance(base, (TupleV,)) else None
        if z is not None and isinstance(base, (ZSeq, Ref)) and not (isinstance(base, Ref) and isinstance(self.heap.get(base.id), SeqV)):
            if isinstance(node.slice, ast.Slice):
                raise Unsupported("slice of a sequence-theory value")
            i = self.as_int(self.ev(node.slice, fr))
            if not fr.spec:
                self.oblige("index", z3.And(i >= 0, i < z3.Length(z.t)), f"L{node.lineno}c{node.col_offset}",
                            {"why": "IndexError instead of SerializationError"})
                self.assume(z3.And(i >= 0, i < z3.Length(z.t)))
            el = z.t[i]
            if z.elem.startswith("obj:"):
                return ObjSym(el, z.elem[4:] or None)
            if z.elem == "str":
                return ZSeq(el, "int")
            if z.nonneg:
                self.fact(el >= 0)
            return el
        return super().ev_Subscript(node, fr)

    def getattr(self, base, attr, fr, node=None):
        if is_int(base) and attr in ("name", "value"):
            return OpaqueV("enum." + attr) if attr == "name" else base
        if isinstance(base, MaybeV):
            base = self.none_use(base, "attribute " + attr)
        if isinstance(base, ObjSym):
            raise Unsupported(f"attribute {attr} of an opaque object")
        o = self.obj(base)
        if o is not None and o.cls is not None:
            q = o.cls.qualname
            if q == WRITER_Q and attr == "string_sanitization_mode":
                return o.fields["_string_sanitization_mode"]
            if q == READER_Q and "rt" in o.fields:
                if attr == "chunked_reading_mode":
                    return self.rt.mode
                if attr == "position":
                    return self.rt.pos
                if attr == "remaining":
                    return self.rt.rem()
            if q == READER_Q and "cdata" in o.fields:
                if attr == "chunked_reading_mode":
                    return o.fields["cmode"]
                if attr == "position":
                    return o.fields["cpos"]
                if attr == "remaining":
                    return simp(z3.Length(o.fields["cdata"].t) - o.fields["cpos"])
            if q == READER_Q:
                if attr == "chunked_reading_mode":
                    return self.V.CH(o.fields["st"])
                if attr == "position":
                    return self.V.POS(o.fields["st"])
                if attr == "remaining":
                    return self.V.REM(o.fields["st"])
            if attr == "byte_size" and attr not in o.fields and "_byte_size" in o.fields:
                return o.fields["_byte_size"]
        return super().getattr(base, attr, fr, node)

    def assign(self, t, v, fr, s):
        if isinstance(t, ast.Attribute):
            base = self.ev(t.value, fr)
            o = self.obj(base)
            if o is not None and o.cls is not None:
                q = o.cls.qualname
                if q == WRITER_Q and t.attr == "string_sanitization_mode":
                    o.fields["_string_sanitization_mode"] = self.truth(v) if not is_bool(v) else v
                    return
                if q == READER_Q and t.attr == "chunked_reading_mode" and "rt" in o.fields:
                    self.rt.mode = simp(self.truth(v) if not is_bool(v) else v)
                    return
                if q == READER_Q and t.attr == "chunked_reading_mode" and "cdata" in o.fields:
                    nv = simp(self.truth(v) if not is_bool(v) else v)
                    if not z3.is_false(nv):
                        raise Unsupported("chunked reading in round-trip mode")
                    o.fields["cmode"] = nv
                    return
                if q == READER_Q and t.attr == "chunked_reading_mode":
                    o.fields["st"] = self.V.setch(self, o.fields["st"], self.truth(v) if not is_bool(v) else v)
                    return
                if q in (WRITER_Q, READER_Q):
                    raise Unsupported(f"store to {q}.{t.attr}")
                if getattr(self, "frozen_data", None) is not None and base.id == self.frozen_data:
                    self.oblige("frame", z3.BoolVal(False), f"store-{t.attr}-L{s.lineno}",
                                {"why": "serialize stores into the object being serialized"})
        super().assign(t, v, fr, s)

    def construct(self, ci, args, kwargs, fr, node):
        bases = [b.id for b in ci.node.bases if isinstance(b, ast.Name)]
        if "IntEnum" in bases:
            # ProtocolEnumMeta.__call__ (C14): never fails, keeps the integer
            return self.as_int(args[0])
        return super().construct(ci, args, kwargs, fr, node)

    def call_builtin(self, f, args, kwargs, fr, node):
        n = f.name
        if n == "len" and args:
            a = args[0]
            if isinstance(a, MaybeV):
                a = self.none_use(a, "len()")
            z = a if isinstance(a, ZSeq) else (self.heap.get(a.id) if isinstance(a, Ref) and isinstance(self.heap.get(a.id), ZSeq) else None)
            if z is not None:
                return z3.Length(z.t)
            if isinstance(a, EmptyList) or (isinstance(a, Ref) and isinstance(self.heap.get(a.id), EmptyList)):
                return I(0)
            o = self.obj(a)
            if o is not None and o.cls is not None and o.cls.qualname == WRITER_Q:
                return z3.Length(o.fields["data"].t)
            args = [a] + list(args[1:])
        if n == "bytes" and args and (isinstance(args[0], ZSeq) or isinstance(args[0], MaybeV)):
            a = self.none_use(args[0], "bytes()") if isinstance(args[0], MaybeV) else args[0]
            return ZSeq(a.t, a.elem, a.nonneg, mutable=False)          # an immutable copy with the same contents
        if n in ("tuple", "len") and args and isinstance(args[0], Ref) and type(self.heap.get(args[0].id)).__name__ == "AbsList":
            return args[0] if n == "tuple" else self.heap[args[0].id].count
        if n in ("tuple", "len") and args and isinstance(args[0], Ref) and type(self.heap.get(args[0].id)).__name__ == "PyList":
            return args[0] if n == "tuple" else I(len(self.heap[args[0].id].items))
        if n == "tuple" and args:
            a = args[0]
            if isinstance(a, MaybeV):
                a = self.none_use(a, "tuple()")
            if isinstance(a, ZSeq):
                return a
            if isinstance(a, Ref) and isinstance(self.heap.get(a.id), ZSeq):
                return self.heap[a.id]
            if isinstance(a, Ref) and isinstance(self.heap.get(a.id), EmptyList):
                hint = getattr(self, "list_hint", {}).get(a.id)
                return ZSeq(z3.Empty(hint[0]), hint[1]) if hint else ZSeq(EMPTY, "int")
        if n == "isinstance" and len(args) == 2 and isinstance(args[1], ClsV):
            a = args[0]
            name = args[1].ci.name
            if isinstance(a, MaybeV):
                inner = a.val
                if isinstance(inner, ObjSym):
                    return z3.And(z3.Not(a.isnone), self.V.CLSOF(inner.t) == self.V.cls_id(name))
            if isinstance(a, ObjSym):
                return self.V.CLSOF(a.t) == self.V.cls_id(name)
            if a is NONE:
                return z3.BoolVal(False)
        if n == "int" and args and isinstance(args[0], MaybeV):
            return self.as_int(args[0])
        if n == "int" and args and type(args[0]).__name__ == "RatV":
            # int(reader.remaining / size): exact for data shorter than 2^50 bytes (assumption, listed)
            from .exec import trunc_div
            cd = concrete_int(args[0].den)
            if cd is None or cd <= 0:
                self.oblige("div-zero", z3.BoolVal(False), f"L{node.lineno}", {"why": "division by a non-positive size"})
                raise PathEnd()
            self.assumptions_used.add("int(reader.remaining / size) is exact: byte strings shorter than 2^50 bytes")
            return simp(trunc_div(args[0].num, args[0].den))
        if n == "seq.append":
            pass
        return super().call_builtin(f, args, kwargs, fr, node)

    def ev_List(self, node, fr):
        if not node.elts:
            if getattr(self, "rt", None) is not None:
                from .gen_rt import PyList
                return self.alloc(PyList())
            return self.alloc(EmptyList())
        return super().ev_List(node, fr)

    def ev_Attribute(self, node, fr):
        # list.append on sequence-theory lists
        if node.attr == "append":
            base = self.ev(node.value, fr)
            if isinstance(base, Ref) and type(self.heap.get(base.id)).__name__ == "PyList":
                return BuiltinV("pylist.append", recv=base)
            if isinstance(base, Ref) and type(self.heap.get(base.id)).__name__ == "AbsList":
                return BuiltinV("abslist.append", recv=base)
            if isinstance(base, Ref) and isinstance(self.heap.get(base.id), (EmptyList, ZSeq)):
                return BuiltinV("zlist.append", recv=base)
        return super().ev_Attribute(node, fr)

    # ---- calls: abstract writer / reader, nested generated classes
    def call(self, f, args, kwargs, fr, node):
        if isinstance(f, BuiltinV) and f.name == "abslist.append":
            from .gen_rt import leaf_value
            al = self.heap[f.recv.id]
            x = args[0]
            for leaf in al.info["layout"]:
                if leaf[0] is None:
                    continue
                got = leaf_value(self, x, leaf[0])
                want = al.info["A"][leaf[0]](al.count)
                if got is None:
                    ok = z3.BoolVal(False)
                elif z3.is_bool(want) and is_int(got):
                    ok = (got != 0) == want
                else:
                    ok = got == want
                self.oblige("roundtrip", ok, f"{al.info['key'][1]}[i].{leaf[0] or 'item'}",
                            {"why": f"element leaf {leaf[0] or 'item'} read back differs from the one written", "property": "C01"})
                self.assume(ok)
            al.count = simp(al.count + 1)
            return NONE
        if isinstance(f, BuiltinV) and f.name == "pylist.append":
            self.heap[f.recv.id].items.append(args[0])
            return NONE
        if isinstance(f, BuiltinV) and f.name == "zlist.append":
            cur = self.heap[f.recv.id]
            u, elem = unit_of(args[0] if not isinstance(args[0], MaybeV) else self.none_use(args[0], "append"))
            if isinstance(cur, EmptyList):
                self.heap[f.recv.id] = ZSeq(u, elem)
            else:
                self.heap[f.recv.id] = ZSeq(z3.Concat(cur.t, u), cur.elem)
            return NONE
        return super().call(f, args, kwargs, fr, node)

    def call_user(self, fi, args, kwargs, fr, node):
        q = fi.qualname
        if fi.cls is not None and fi.cls.qualname == WRITER_Q:
            return self.writer_call(fi.name, args[0], args[1:], node)
        if fi.cls is not None and fi.cls.qualname == READER_Q:
            return self.reader_call(fi.name, args[0], args[1:], node)
        if fi.cls is not None and fi.name in ("serialize", "deserialize") and fi.cls.name in self.decls \
                and fi is not self.current_fi:
            if fi.name == "serialize":
                return self.nested_serialize(fi.cls.name, args, node)
            if getattr(self, "rt_mode", False):
                env = self.bind_args(fi, args, kwargs, fr)
                return self.inline_call(fi, env, fr)       # the nested class's real emitted deserialize
            return self.nested_deserialize(fi.cls.name, args, node)
        if fi.name == "__init__" and fi.cls is not None and fi.cls.name in self.decls:
            env = self.bind_args(fi, args, kwargs, fr)
            return self.inline_call(fi, env, fr)
        return super().call_user(fi, args, kwargs, fr, node)

    def maybe_fail(self, who, node):
        """C15's 'failing writer/reader': any call may raise; the finally must still restore."""
        if self.inject_failures and self.choose(2) == 1:
            raise PyExc("InjectedFailure", node)

    def writer_call(self, name, w, args, node):
        o = self.obj(w)
        V = self.V
        data = o.fields["data"]
        san = o.fields["_string_sanitization_mode"]
        line = getattr(node, "lineno", 0)
        self.maybe_fail("writer", node)

        def append(piece):
            o.fields["data"] = ZSeq(z3.Concat(data.t, piece), "int")

        def intarg(k=0):
            v = self.as_int(args[k])
            self.oblige("writer-pre", v >= 0, f"{name}@L{line}", {"why": "negative integer handed to the writer"})
            self.assume(v >= 0)
            return v
        if name == "add_byte":
            v = intarg()
            if self.branch(V.ra(self, "WA_INT_RAISES", I(0), v)):
                raise PyExc("ValueError", node)
            append(V.enc(self, v, "byte"))
            return NONE
        if name in ("add_char", "add_short", "add_three", "add_int"):
            under = name[4:]
            v = intarg()
            if self.branch(V.ra(self, "WA_INT_RAISES", I(X.INT_WIDTH[under]), v)):
                raise PyExc("ValueError", node)
            append(V.enc(self, v, under))
            return NONE
        if name == "add_bytes":
            b = self.none_use(args[0], "add_bytes")
            z = self.zseq(b)
            if z is None:
                raise Unsupported("add_bytes argument")
            append(z.t)
            return NONE
        if name in ("add_string", "add_encoded_string"):
            s = self.zseq(self.none_use(args[0], name))
            if s is None:
                raise Unsupported(name + " argument")
            piece = V.sb(self, s.t, san)
            if name == "add_encoded_string":
                piece = V.es(self, piece)
            append(piece)
            return NONE
        if name in ("add_fixed_string", "add_fixed_encoded_string"):
            s = self.zseq(self.none_use(args[0], name))
            if s is None:
                raise Unsupported(name + " argument")
            L = self.as_int(args[1])
            padded = simp(self.truth(args[2])) if len(args) > 2 else z3.BoolVal(False)
            n = z3.Length(s.t)
            bad = V.ra(self, "WA_FIXED_RAISES", n, L, padded)
            if self.branch(bad):
                raise PyExc("ValueError", node)
            piece = V.sb(self, s.t, san)
            if z3.is_true(padded):
                piece = z3.Concat(piece, V.pad(self, L - n))
            elif not z3.is_false(padded):
                raise Unsupported("symbolic padded flag")
            if name == "add_fixed_encoded_string":
                piece = V.es(self, piece)
            append(piece)
            return NONE
        if name == "__len__":
            return z3.Length(data.t)
        raise Unsupported(f"writer method {name}")

    def nested_serialize(self, cls, args, node):
        w, d = args[0], args[1]
        o = self.obj(w)
        d = self.none_use(d, f"{cls}.serialize argument")
        if not isinstance(d, ObjSym):
            raise Unsupported("nested serialize of a non-opaque object")
        k = self.choose(3)
        data = o.fields["data"]
        san = o.fields["_string_sanitization_mode"]
        if k == 0:
            piece = self.V.WIRE(cls)(d.t, san)
            o.fields["data"] = ZSeq(z3.Concat(data.t, piece), "int")
            self.fact(self.V.VALID(cls)(d.t))          # contract of cls.serialize: normal return => valid
            return NONE
        # exceptional exits of the nested call: mode preserved (its own C15), data arbitrary extension
        junk = self.fresh("junk", BYTES)
        o.fields["data"] = ZSeq(z3.Concat(data.t, junk), "int")
        # the callee's proved `accepts-valid`: it raises SerializationError / ValueError only for invalid objects
        self.fact(z3.Not(self.V.VALID(cls)(d.t)))
        raise PyExc("SerializationError" if k == 1 else "ValueError", node)

    # reader ------------------------------------------------------------
    def concrete_reader_call(self, name, o, args, node):
        """RT mode (C01, fixed-size classes): the reader is concrete-structured - data is a z3
        sequence of interpreted bytes, position an integer, never chunked; the operations are the C05
        contracts instantiated for non-chunked mode (TAKE = min(k, len - pos), value = DEC of the slice)."""
        data, pos = o.fields["cdata"].t, o.fields["cpos"]
        rem = z3.Length(data) - pos
        width = {"get_byte": 0, "get_char": 1, "get_short": 2, "get_three": 3, "get_int": 4}
        if name not in width:
            raise Unsupported(f"reader method {name} in round-trip mode")
        w = width[name]
        if w == 0:
            val = z3.If(rem > 0, data[pos], I(0))
            o.fields["cpos"] = simp(pos + z3.If(rem > 0, I(1), I(0)))
            return simp(val)
        take = z3.If(rem < w, z3.If(rem < 0, I(0), rem), I(w))
        total = I(0)
        alive = z3.BoolVal(True)
        mult = 1
        for i in range(w):
            b = data[pos + i]
            alive = z3.And(alive, i < take, b != 0xFE)
            total = total + z3.If(alive, (b - 1) * mult, I(0))
            mult *= 253
        o.fields["cpos"] = simp(pos + take)
        return simp(total)

    def reader_call(self, name, r, args, node):
        o = self.obj(r)
        V = self.V
        if "rt" in o.fields:
            return self.rt.call(name, args, node)
        if "cdata" in o.fields:
            return self.concrete_reader_call(name, o, args, node)
        st = o.fields["st"]
        self.maybe_fail("reader", node)
        width = {"get_byte": 0, "get_char": 1, "get_short": 2, "get_three": 3, "get_int": 4}
        if name in width:
            w = width[name]
            o.fields["st"] = V.skip(self, st, I(1 if w == 0 else w))
            return V.VINT(st, I(w))
        if name in ("get_string", "get_encoded_string"):
            o.fields["st"] = V.skip(self, st, V.REM(st))
            t = V.VSTR(st, V.REM(st), z3.BoolVal(False), z3.BoolVal(name == "get_encoded_string"))
            return ZSeq(t, "int")
        if name in ("get_fixed_string", "get_fixed_encoded_string"):
            n = self.as_int(args[0])
            padded = simp(self.truth(args[1])) if len(args) > 1 else z3.BoolVal(False)
            if self.branch(n < 0):
                raise PyExc("ValueError", node)        # the documented failure
            o.fields["st"] = V.skip(self, st, n)
            return ZSeq(V.VSTR(st, n, padded, z3.BoolVal(name == "get_fixed_encoded_string")), "int")
        if name == "get_bytes":
            n = self.as_int(args[0])
            self.oblige("reader-pre", n >= 0, f"get_bytes@L{node.lineno}", {"why": "negative length"})
            if not n.eq(V.REM(st)):
                raise Unsupported("get_bytes with a length other than reader.remaining")
            o.fields["st"] = V.skip(self, st, n)
            return ZSeq(V.VBLOB(st), "int", mutable=True)        # EoReader.get_bytes returns a bytearray
        if name == "next_chunk":
            self.oblige("no-exc", V.CH(st), f"next_chunk@L{node.lineno}",
                        {"why": "RuntimeError: next_chunk outside chunked reading mode"})
            self.assume(V.CH(st))
            o.fields["st"] = V.next(self, st)
            return NONE
        raise Unsupported(f"reader method {name}")

    def nested_deserialize(self, cls, args, node):
        o = self.obj(args[0])
        st = o.fields["st"]
        V = self.V
        if self.ctx_chunked.get(cls):
            # case classes declared inside a chunked section are only ever entered in chunked mode
            self.oblige("call-pre", V.CH(st), f"{cls}.deserialize@L{node.lineno}",
                        {"why": "case data of a chunked section deserialized outside chunked mode"})
        ok = V.PARSEOK(cls)(st)
        if self.choose(2) == 1:
            # the nested deserializer's documented failure; its own contract restores the mode
            self.fact(z3.Not(ok))
            o.fields["st"] = self.fresh("st_exc", RS)
            self.fact(V.CH(o.fields["st"]) == V.CH(st))
            raise PyExc("ValueError", node)
        self.fact(ok)
        ns = V.PARSES(cls)(st)
        # the callee's proved summary (ProgramVerifier.verify_deserialize: mode-restored, summary[measure])
        self.fact(z3.And(V.CH(ns) == V.CH(st), V.state_ok(self, ns), V.lex_le(ns, st)))
        prog = self.progress.get(cls)
        if prog:
            # a class that starts by reading at least one byte consumes data whenever data remains
            # (the callee's proved summary[progress])
            pre = V.REM(st) > 0 if prog == "always" else z3.And(V.CH(st), V.REM(st) > 0)
            self.fact(z3.Implies(pre, V.lex_lt(ns, st)))
        o.fields["st"] = ns
        return ObjSym(V.PARSEV(cls)(st), cls)

    # loops: invariants synthesised by the driver ------------------------------------------
    def loop_spec(self, fr, node):
        if self.loop_hook is None:
            return super().loop_spec(fr, node)
        ordn = self.loop_ordinal(fr, node)
        return self.loop_hook(fr, node, ordn), ordn

    def check_invariants(self, spec, ordn, fr, kind):
        if spec is None or "z3inv" not in spec:
            return super().check_invariants(spec, ordn, fr, kind)
        for idx, (label, t) in enumerate(spec["z3inv"](self, fr)):
            self.oblige(kind, t, f"loop{ordn}[{label}]", {"clause": label})

    def assume_invariants(self, spec, fr):
        if spec is None or "z3inv" not in spec:
            return super().assume_invariants(spec, fr)
        if "on_head" in spec:
            spec["on_head"](self, fr)
        for label, t in spec["z3inv"](self, fr):
            self.assume(t)

    def havoc_loop(self, names, objs, elem_only, fr):
        if getattr(self, "rt", None) is not None:
            # round-trip mode: the concrete-structured reader and the abstract result list
            for nm in sorted(names):
                v = fr.env.get(nm)
                if is_int(v):
                    fr.env[nm] = self.fresh(nm)
                elif is_bool(v):
                    fr.env[nm] = self.fresh(nm, BOOL)
            self.rt.pos = self.fresh("rtpos")
            self.rt.cs = self.fresh("rtcs")
            self.rt.mode = self.fresh("rtmode", BOOL)
            for nm in sorted(objs):
                v = fr.env.get(nm)
                o = self.heap.get(v.id) if isinstance(v, Ref) else None
                if type(o).__name__ == "AbsList":
                    o.count = self.fresh("count_" + nm)
            return
        # generated loops only modify: locals, the writer's data, the reader's state, result lists
        for nm in sorted(names):
            if nm in fr.env:
                v = fr.env[nm]
                if is_int(v):
                    fr.env[nm] = self.fresh(nm)
                elif is_bool(v):
                    fr.env[nm] = self.fresh(nm, BOOL)
                elif isinstance(v, MaybeV) or v is NONE:
                    raise Unsupported(f"loop assigns optional local {nm}")
                elif isinstance(v, Ref) and isinstance(self.heap.get(v.id), (EmptyList, ZSeq)):
                    pass
                else:
                    raise Unsupported(f"havoc of {nm}")
        w = fr.env.get("writer")
        if w is not None and self.obj(w) is not None:
            self.obj(w).fields["data"] = ZSeq(self.fresh("wdata", BYTES), "int")
        r = fr.env.get("reader")
        if r is not None and self.obj(r) is not None:
            ns = self.fresh("rst", RS)
            self.obj(r).fields["st"] = ns
            self.V.state_facts(self, ns)
        for nm, v in sorted(fr.env.items()):
            if nm not in objs:
                continue
            if isinstance(v, Ref) and isinstance(self.heap.get(v.id), (EmptyList, ZSeq)) and nm in self.loop_lists:
                sort, elem = self.loop_lists[nm]
                self.heap[v.id] = ZSeq(self.fresh("lst_" + nm, sort), elem)

    def modified_in(self, stmts, fr):
        names = set()
        appended = set()
        for s in stmts:
            for n in _preorder(s):
                if isinstance(n, ast.Call) and isinstance(n.func, ast.Attribute) and n.func.attr == "append" \
                        and isinstance(n.func.value, ast.Name):
                    appended.add(n.func.value.id)
                tg = []
                if isinstance(n, ast.Assign):
                    tg = n.targets
                elif isinstance(n, (ast.AugAssign, ast.AnnAssign)):
                    tg = [n.target]
                elif isinstance(n, ast.For):
                    tg = [n.target]
                for t in tg:
                    if isinstance(t, ast.Name):
                        names.add(t.id)
                    elif isinstance(t, ast.Attribute):
                        base = ast.unparse(t.value)
                        if base not in ("writer", "reader", "result"):
                            raise Unsupported("loop body stores to an attribute of " + base)
        return names, appended, {}

    def live_symbols(self, fr):
        return set()

    def forget_dead(self, before, fr):
        return
