"""E3 / replay: the same contract text evaluated natively around the *real* functions.
Used (i) to replay solver counter-models, (ii) as concrete search behind an undecided or
unreplayable obligation, (iii) as thorough-tier cross-check.  Never counted as proof."""
import copy
import importlib
import inspect
import random
import sys

from . import api

BOUNDARY_INTS = [0, 1, 2, 3, 9, 10, 11, 127, 128, 129, 252, 253, 254, 255, 256, 64008, 64009, 64010,
                 16194276, 16194277, 16194278, 4097152080, 4097152081, 4097152082, -1, -2]
BYTE_ALPHABETS = [
    [0x00, 0x01, 0xFE, 0xFF],
    [0xFF, 0x41, 0x7E, 0x22, 0x50, 0x4F, 0x21, 0x7D],
    list(range(256)),
    [0, 3, 6, 9, 12, 5, 7, 128, 255],
]
# includes C1 controls (U+0081 U+0085 U+009F): latin-1 has them, windows-1252 does not
STR_ALPHABET = "aZ~ ÿ€Ÿé?!y\x00Ā\U0001F600þ\x81\x85\x9f\xa0"


class Native:
    def __init__(self, contract_modules, repo=None):
        api.CONTRACTS.clear()
        api.CLASS_CONTRACTS.clear()
        api.LEMMAS.clear()
        api.load_repo_packages(repo)
        for name in contract_modules:
            if name in sys.modules:
                importlib.reload(sys.modules[name])
            else:
                importlib.import_module(name)
        self.contracts = dict(api.CONTRACTS)
        self.class_contracts = dict(api.CLASS_CONTRACTS)
        self.lemmas = dict(api.LEMMAS)
        self.evals = 0

    # ---- resolving the real callable
    def resolve(self, qualname):
        parts = qualname.split(".")
        setter = parts[-1] == "setter"
        if setter:
            parts = parts[:-1]
        for cut in range(len(parts) - 1, 0, -1):
            try:
                mod = importlib.import_module(".".join(parts[:cut]))
            except Exception:
                continue
            obj = mod
            cls = None
            ok = True
            for p in parts[cut:]:
                if inspect.isclass(obj):
                    cls = obj
                    raw = obj.__dict__.get(p)
                    if raw is None:
                        raw = getattr(obj, p, None)
                    if raw is None:
                        ok = False
                        break
                    obj = raw
                else:
                    if not hasattr(obj, p):
                        ok = False
                        break
                    obj = getattr(obj, p)
            if not ok:
                continue
            if isinstance(obj, staticmethod):
                return obj.__func__, "static", cls
            if isinstance(obj, property):
                return (obj.fset if setter else obj.fget), "method", cls
            if cls is not None:
                return obj, "method", cls
            return obj, "function", None
        raise KeyError(qualname)

    def class_contract_of(self, cls):
        for c in cls.__mro__:
            q = c.__module__ + "." + c.__qualname__
            if q in self.class_contracts:
                return self.class_contracts[q]
        return None

    # ---- clause evaluation
    @staticmethod
    def call_clause(fn, scope):
        names = list(inspect.signature(fn).parameters)
        return fn(**{n: scope[n] for n in names})

    def snapshot(self, v):
        if hasattr(v, "__dict__") and not inspect.isclass(v):
            cc = self.class_contract_of(type(v))
            if cc is not None and hasattr(cc, "native_snapshot"):
                return cc.native_snapshot(v)
            new = object.__new__(type(v))
            for k, x in v.__dict__.items():
                new.__dict__[k] = self.snapshot(x)
            return new
        if isinstance(v, memoryview):
            return bytes(v)
        try:
            return copy.deepcopy(v)
        except Exception:
            return v

    def invariant_failures(self, obj):
        cc = self.class_contract_of(type(obj)) if obj is not None else None
        if cc is None or not hasattr(cc, "invariant"):
            return []
        res = cc.invariant(obj)
        return [i for i, ok in enumerate(res) if not ok]

    def run_case(self, qualname, kwargs):
        """Returns (status, detail); status in ok / skip / fail."""
        con = self.contracts[qualname]
        fn, kind, cls = self.resolve(qualname)
        scope = dict(kwargs)
        if hasattr(con, "requires"):
            try:
                if not all(self.call_clause(con.requires, scope)):
                    return "skip", None
            except Exception:
                return "skip", None
        recv = kwargs.get("self")
        uses_inv = getattr(con, "uses_invariant", None)
        if uses_inv is None:
            uses_inv = recv is not None and not fn.__name__.startswith("_")
        if uses_inv and recv is not None and fn.__name__ != "__init__" and self.invariant_failures(recv):
            return "skip", None
        for k, v in kwargs.items():
            scope["old_" + k] = self.snapshot(v)
        raises = {}
        if hasattr(con, "raises"):
            raises = self.call_clause(con.raises, scope)
        self.evals += 1
        try:
            result = fn(**kwargs)
        except Exception as e:
            allowed = [c for k, c in raises.items() if isinstance(e, k)]
            if not allowed:
                return "fail", {"kind": "no-exc", "exception": repr(e)}
            if not any(allowed):
                return "fail", {"kind": "raises", "exception": repr(e)}
            # atomicity: a raising call leaves every argument (and the receiver) as it found it
            keep = set(getattr(con, "raises_modifies", []))
            for k, v in kwargs.items():
                if k in keep:
                    continue
                if _show(v) != _show(scope["old_" + k]):
                    return "fail", {"kind": "exc-frame", "exception": repr(e), "changed": k,
                                    "before": _show(scope["old_" + k]), "after": _show(v)}
            return "ok", None
        for k, c in raises.items():
            if c:
                return "fail", {"kind": "raises-iff", "expected": k.__name__, "observed": "normal return"}
        scope["result"] = result
        if hasattr(con, "ensures"):
            try:
                res = self.call_clause(con.ensures, scope)
            except Exception as e:
                return "fail", {"kind": "post", "error": repr(e)}
            bad = [i for i, ok in enumerate(res) if not ok]
            if bad:
                return "fail", {"kind": "post", "clauses": bad, "result": _show(result)}
        if (uses_inv or fn.__name__ == "__init__") and recv is not None:
            bad = self.invariant_failures(recv)
            if bad:
                return "fail", {"kind": "inv-exit", "clauses": bad}
        return "ok", None

    # ---- generators
    SMALL_NAMES = {"length", "bytes_length", "index", "size", "count", "i", "j", "k", "n", "a", "b", "m",
                   "multiple", "max_value"}

    def gen_param(self, name, sort, rng, size=8):
        """ints that the real code uses as sizes / indices are drawn small (a 4 GB bytearray(length)
        is not an interesting test)."""
        if sort in ("int", "nat") and name in self.SMALL_NAMES:
            v = rng.randrange(-2, 14) if rng.random() < 0.85 else rng.choice([252, 253, 254, 255, 256, 40])
            return abs(v) if sort == "nat" else v
        if sort == "Optional[int]" and name in self.SMALL_NAMES:
            return None if rng.random() < 0.3 else rng.randrange(-2, 14)
        return self.gen(sort, rng, size)

    def gen(self, sort, rng, size=8):
        if sort == "int" or sort == "nat":
            r = rng.random()
            if r < 0.45:
                v = rng.randrange(-2, 14)
            elif r < 0.8:
                v = rng.choice(BOUNDARY_INTS)
            elif r < 0.9:
                v = rng.randrange(0, 253 ** 3)
            else:
                v = rng.randrange(-10, 253 ** 4 + 10)
            return abs(v) if sort == "nat" else v
        if sort == "bool":
            return rng.random() < 0.5
        if sort in ("bytes", "bytearray", "memoryview"):
            n = rng.randrange(0, size + 1) if rng.random() < 0.9 else rng.randrange(0, 40)
            alpha = rng.choice(BYTE_ALPHABETS)
            b = bytes(rng.choice(alpha) for _ in range(n))
            return bytearray(b) if sort == "bytearray" else (memoryview(b) if sort == "memoryview" else b)
        if sort == "str":
            n = rng.randrange(0, size + 1)
            return "".join(rng.choice(STR_ALPHABET) for _ in range(n))
        if sort == "None":
            return None
        if sort.startswith("Optional["):
            return None if rng.random() < 0.3 else self.gen(sort[9:-1], rng, size)
        # class instance
        _, _, _ = None, None, None
        cls = self.resolve_class(sort)
        cc = self.class_contract_of(cls)
        if cc is not None and hasattr(cc, "native_generate"):
            return cc.native_generate(rng, self)
        raise KeyError(f"no native generator for {sort}")

    def resolve_class(self, qualname):
        parts = qualname.split(".")
        for cut in range(len(parts) - 1, 0, -1):
            try:
                mod = importlib.import_module(".".join(parts[:cut]))
            except Exception:
                continue
            obj = mod
            try:
                for p in parts[cut:]:
                    obj = getattr(obj, p)
                return obj
            except AttributeError:
                continue
        raise KeyError(qualname)

    def param_sorts(self, qualname, registry):
        """sorts of the real function's parameters, as the symbolic side sees them."""
        from . import repo
        fi = repo.lookup(qualname)
        con = registry.get(qualname)
        return [(p, registry.sort_of_param(con, fi, p)) for p in fi.params]

    def search(self, qualname, registry, rng, budget=2000, size=8, seeds=()):
        """Concrete search for an input on which the runtime contract fails."""
        sorts = self.param_sorts(qualname, registry)
        tried = 0
        for seed_kwargs in seeds:
            seed_kwargs = {k: unshow(_show(v)) for k, v in seed_kwargs.items()}
            try:
                st, d = self.run_case(qualname, {k: unshow(_show(v)) for k, v in seed_kwargs.items()})
            except Exception as e:
                st, d = "skip", None
            if st == "fail":
                return {k: _show(v) for k, v in seed_kwargs.items()}, d, tried
        ran = 0
        for _ in range(budget * 6):
            if ran >= budget:
                break
            try:
                kwargs = {p: self.gen_param(p, s, rng, size) for p, s in sorts}
            except KeyError:
                return None, None, ran
            shown = {k: _show(v) for k, v in kwargs.items()}
            st, d = self.run_case(qualname, kwargs)
            if st == "skip":
                continue
            ran += 1
            if st == "fail":
                return shown, d, ran
            if "self" in kwargs and kwargs["self"] is not None and rng.random() < 0.2:
                h = self.follow_ups(qualname, kwargs, shown, registry, rng, size)
                ran += h[2]
                if h[0] is not None:
                    return h[0], h[1], ran
        return None, None, ran

    def siblings(self, qualname, registry):
        """the contracted methods of the same class that take a receiver"""
        prefix = qualname.rsplit(".", 1)[0] + "."
        out = []
        for q in self.contracts:
            if q.startswith(prefix) and "." not in q[len(prefix):].replace(".setter", ""):
                try:
                    so = self.param_sorts(q, registry)
                except Exception:
                    continue
                if so and so[0][0] == "self" and not q.endswith("__init__"):
                    out.append((q, so))
        return sorted(out)

    def follow_ups(self, qualname, kwargs, shown, registry, rng, size):
        """histories: the receiver of a call that went well is used again - the same call repeated, then sibling
        methods fed the arguments already used (same text, its length) - each step under its own runtime contract.
        Returns (shown history or None, detail, evaluations)."""
        sibs = self.siblings(qualname, registry)
        if not sibs:
            return None, None, 0
        recv = kwargs["self"]
        steps = [{"function": qualname, "args": {k: v for k, v in shown.items() if k != "self"}}]
        pool = [(k, v) for k, v in kwargs.items() if k != "self"]
        ran = 0
        for _ in range(rng.randrange(1, 4)):
            same = [x for x in sibs if x[0] == qualname]
            q2, so2 = rng.choice(same) if same and rng.random() < 0.4 else rng.choice(sibs)
            kw2 = {"self": recv}
            for pname, sort in so2[1:]:
                cands = [v for k, v in pool if k == pname and self.fits(v, sort)] or [v for k, v in pool if self.fits(v, sort)]
                if pname in self.SMALL_NAMES:
                    # sizes / indices stay small (a 4 GB padding is not an interesting history)
                    cands = [v for v in cands if v is None or (isinstance(v, int) and -3 < v < 300)]
                strs = [v for k, v in pool if isinstance(v, str)]
                if pname == "length" and strs and sort in ("int", "nat", "Optional[int]") and rng.random() < 0.6:
                    kw2[pname] = len(rng.choice(strs))
                elif cands and rng.random() < 0.8:
                    kw2[pname] = rng.choice(cands)
                else:
                    try:
                        kw2[pname] = self.gen_param(pname, sort, rng, size)
                    except KeyError:
                        return None, None, ran
            sh2 = {k: _show(v) for k, v in kw2.items() if k != "self"}
            st, d = self.run_case(q2, kw2)
            if st == "skip":
                continue
            ran += 1
            steps.append({"function": q2, "args": sh2})
            pool += [(k, v) for k, v in kw2.items() if k != "self"]
            if st == "fail":
                d = dict(d or {}, failing_step=len(steps) - 1, failing_function=q2)
                return {"self": shown["self"], "__history__": steps}, d, ran
        return None, None, ran

    @staticmethod
    def fits(v, sort):
        if sort.startswith("Optional["):
            return v is None or Native.fits(v, sort[9:-1])
        if sort in ("int", "nat"):
            return isinstance(v, int) and not isinstance(v, bool) and (sort == "int" or v >= 0)
        if sort == "bool":
            return isinstance(v, bool)
        if sort == "str":
            return isinstance(v, str)
        if sort in ("bytes", "bytearray", "memoryview"):
            return isinstance(v, {"bytes": bytes, "bytearray": bytearray, "memoryview": memoryview}[sort])
        return False

    def run_history(self, inputs):
        """replay of a history found by follow_ups: every step on the one receiver, each under its contract"""
        recv = unshow(inputs["self"])
        last = ("ok", None)
        for i, step in enumerate(inputs["__history__"]):
            kw = {"self": recv}
            kw.update({k: unshow(v) for k, v in step["args"].items()})
            last = self.run_case(step["function"], kw)
            if last[0] == "fail":
                return "fail", dict(last[1] or {}, failing_step=i, failing_function=step["function"])
        return "ok", None

    def run_lemma(self, qualname, kwargs):
        fn, props, kw = self.lemmas[qualname]
        self.evals += 1
        try:
            fn(**kwargs)
        except api.SkipInstance:
            return "skip", None
        except api.LemmaFailed as e:
            return "fail", {"kind": "lemma-" + str(e)}
        except Exception as e:
            return "fail", {"kind": "lemma-exception", "exception": repr(e)}
        return "ok", None

    def search_lemma(self, qualname, registry, rng, budget=2000, size=8, seeds=()):
        from . import repo
        fi, _ = registry.lemmas[qualname]
        sorts = []
        for p in fi.params:
            ann = fi.annotation(p)
            sorts.append((p, registry.norm_sort(ann, fi.module) if ann else "int"))
        for seed_kwargs in seeds:
            try:
                st, d = self.run_lemma(qualname, seed_kwargs)
            except Exception:
                continue
            if st == "fail":
                return {k: _show(v) for k, v in seed_kwargs.items()}, d, 0
        ran = 0
        for _ in range(budget * 8):
            if ran >= budget:
                break
            try:
                kwargs = {p: self.gen_param(p, s, rng, size) for p, s in sorts}
            except KeyError:
                return None, None, ran
            shown = {k: _show(v) for k, v in kwargs.items()}
            st, d = self.run_lemma(qualname, kwargs)
            if st == "skip":
                continue
            ran += 1
            if st == "fail":
                return shown, d, ran
        return None, None, ran


def _show(v):
    if isinstance(v, (bytes, bytearray)):
        return {"__bytes__": list(v), "mutable": isinstance(v, bytearray)}
    if isinstance(v, memoryview):
        return {"__bytes__": list(bytes(v)), "mutable": False, "memoryview": True}
    if isinstance(v, (int, bool, str)) or v is None:
        return v
    if isinstance(v, (list, tuple)):
        return [_show(x) for x in v]
    if isinstance(v, dict):
        return {"__dictitems__": [[_show(k), _show(x)] for k, x in v.items()]}
    if hasattr(v, "__dict__"):
        return {"__class__": type(v).__module__ + "." + type(v).__qualname__,
                "fields": {k: _show(x) for k, x in v.__dict__.items()}}
    return repr(v)


def unshow(v):
    if isinstance(v, dict) and "__bytes__" in v:
        b = bytes(v["__bytes__"])
        if v.get("memoryview"):
            return memoryview(b)
        return bytearray(b) if v.get("mutable") else b
    if isinstance(v, dict) and "__dictitems__" in v:
        return {(tuple(k) if isinstance(k, list) else unshow(k)): unshow(x) for k, x in v["__dictitems__"]}
    if isinstance(v, dict) and "__class__" in v:
        import importlib
        parts = v["__class__"].split(".")
        for cut in range(len(parts) - 1, 0, -1):
            try:
                obj = importlib.import_module(".".join(parts[:cut]))
                for p in parts[cut:]:
                    obj = getattr(obj, p)
                break
            except Exception:
                continue
        new = object.__new__(obj)
        for k, x in v["fields"].items():
            new.__dict__[k] = unshow(x)
        return new
    if isinstance(v, list):
        return [unshow(x) for x in v]
    return v
