"""Symbolic interpretation of xmlsem (WIRE / VALID) over the vocabulary of pyvc.gen: the same
rules as xmlsem.concrete, producing z3 terms.  One definition, two interpretations."""
import z3

from xmlsem import ir as X
from xmlsem import wellformed as W
from .exec import I, INT, BOOL, simp
from .gen import BYTES, OBJ, EMPTY, SEQ_OBJ, SEQ_STR, ZSeq, MaybeV, ObjSym


def is_str_type(t):
    return t.split(":")[0] in ("string", "encoded_string")


def tref_of(spec, ins):
    return X.resolve_type(spec, ins.type, ins.length if is_str_type(ins.type) else None)


def elem_sort(tref):
    if tref.kind in ("int", "enum", "bool"):
        return BYTES, "int"          # Seq(Int): bools as 0/1 are not supported as array elements
    if tref.kind in ("string", "encoded_string"):
        return SEQ_STR, "str"
    if tref.kind == "struct":
        return SEQ_OBJ, "obj:" + tref.name
    return None, None


def lit_piece(ex, V, tref, text, mode, ins):
    """bytes of a hard-coded value in its field's encoding"""
    if tref.kind == "int":
        return V.enc(ex, I(int(text)), tref.under)
    if tref.kind == "bool":
        return V.enc(ex, I(1 if text == "true" else 0), tref.under)
    if tref.kind in ("string", "encoded_string"):
        s = ex.lit_bytes([ord(c) for c in text])
        p = V.sb(ex, s, mode)
        if ins.length is not None and ins.padded:
            p = z3.Concat(p, V.pad(ex, I(int(ins.length) - len(text))))
        return V.es(ex, p) if tref.kind == "encoded_string" else p
    raise X.SpecError("hard-coded value on a non-basic type")


def value_piece(ex, V, tref, v, mode, ins, lenval=None):
    """bytes of one value (already known not None): v is a z3 term / ZSeq / ObjSym"""
    if tref.kind in ("int", "enum"):
        return V.enc(ex, v, tref.under)
    if tref.kind == "bool":
        if z3.is_int(v):
            v = v != 0               # a bool element of an array modelled as a sequence of integers: Python truthiness
        return V.enc(ex, z3.If(v, I(1), I(0)), tref.under)
    if tref.kind in ("string", "encoded_string"):
        p = V.sb(ex, v.t, mode)
        if ins is not None and ins.tag == "field" and ins.length is not None and ins.padded:
            L = I(int(ins.length)) if ins.length.isdigit() else lenval
            p = z3.Concat(p, V.pad(ex, L - z3.Length(v.t)))
        return V.es(ex, p) if tref.kind == "encoded_string" else p
    if tref.kind == "blob":
        return v.t
    if tref.kind == "struct":
        return V.WIRE(tref.name)(v.t, mode)
    raise AssertionError(tref.kind)


def value_valid(V, tref, v):
    if tref.kind in ("int", "enum"):
        return v < tref.limit
    if tref.kind == "struct":
        return V.VALID(tref.name)(v.t)
    return z3.BoolVal(True)


class ObjectSpec:
    """WIRE / VALID of one generated class over symbolic field values."""

    def __init__(self, ex, V, spec, decl, fields, ctx_chunked):
        self.ex = ex
        self.V = V
        self.spec = spec
        self.decl = decl
        self.f = fields            # name -> executor value (MaybeV / literal term / ZSeq)
        self.ctx_chunked = ctx_chunked
        self.flat = list(X.flatten_own(decl.body))
        self.lengths = {i.name: i for i in self.flat if i.tag == "length"}
        self.arrays = [i for i in self.flat if i.tag == "array"]

    def ref_of(self, lname):
        for i in self.flat:
            if i.tag in ("field", "array") and i.length == lname:
                return i
        return None

    def fold_fn(self, ins, sort):
        nm = f"FOLD_{self.decl.name.replace('.', '_')}_{ins.name}"
        return self.V.fn(nm, sort, INT, BOOL, BYTES)

    def allvalid_fn(self, ins, sort):
        nm = f"ALLVALID_{self.decl.name.replace('.', '_')}_{ins.name}"
        return self.V.fn(nm, sort, INT, BOOL)

    def elem_at(self, ins, arr, i):
        tref = X.resolve_type(self.spec, ins.type)
        el = arr.t[i]
        if arr.elem.startswith("obj:"):
            return tref, ObjSym(el, tref.name)
        if arr.elem == "str":
            return tref, ZSeq(el, "int")
        return tref, el

    def elem_piece(self, ins, arr, i, mode):
        tref, e = self.elem_at(ins, arr, i)
        p = value_piece(self.ex, self.V, tref, e, mode, None)
        ff = self.ex.lit_bytes([0xFF])
        ffp = self.V.enc(self.ex, I(0xFF), "byte")
        if ins.delimited and ins.trailing:
            return z3.Concat(p, ffp)
        if ins.delimited and not ins.trailing:
            return z3.If(i > 0, z3.Concat(ffp, p), p)
        return p

    def elem_valid(self, ins, arr, i):
        tref, e = self.elem_at(ins, arr, i)
        return value_valid(self.V, tref, e)

    def unfold(self, ins, arr, i, mode):
        """ground unfold instances of FOLD / ALLVALID for this array at index i"""
        sort = arr.t.sort()
        F = self.fold_fn(ins, sort)
        A = self.allvalid_fn(ins, sort)
        ex = self.ex
        ex.fact(F(arr.t, I(0), mode) == EMPTY)
        ex.fact(A(arr.t, I(0)))
        ex.fact(z3.Implies(z3.And(i >= 0, i < z3.Length(arr.t)),
                           F(arr.t, i + 1, mode) == z3.Concat(F(arr.t, i, mode), self.elem_piece(ins, arr, i, mode))))
        ex.fact(z3.Implies(z3.And(i >= 0, i < z3.Length(arr.t)),
                           A(arr.t, i + 1) == z3.And(A(arr.t, i), self.elem_valid(ins, arr, i))))
        # ALLVALID is a conjunction over a prefix: the whole implies every prefix (monotonicity, instance at i + 1)
        ex.fact(z3.Implies(z3.And(i >= 0, i < z3.Length(arr.t)),
                           z3.Implies(A(arr.t, z3.Length(arr.t)), A(arr.t, i + 1))))

    # ---- the walk
    def wire_and_valid(self, mode0):
        """returns (bytes term, validity term) for the object entered with sanitisation mode0"""
        ex, V, spec = self.ex, self.V, self.spec
        acc = [EMPTY]
        valid = []
        st = {"mode": mode0, "chunked": self.ctx_chunked, "missing": z3.BoolVal(False), "guard": z3.BoolVal(True)}
        types = {}

        def emit(piece, cond=None):
            acc[0] = z3.Concat(acc[0], piece if cond is None else z3.If(cond, piece, EMPTY))

        def need(c):
            valid.append(c)

        def run(body):
            for ins in body:
                if ins.tag == "field":
                    tref = tref_of(spec, ins)
                    if ins.name is not None:
                        types[ins.name] = tref
                    if ins.value is not None:
                        # hard-coded: never None; as an optional field still part of the optional tail of its chunk
                        emit(lit_piece(ex, V, tref, ins.value, st["mode"], ins),
                             z3.Not(st["missing"]) if ins.optional else None)
                        continue
                    fv = self.f[ins.name]
                    isnone, v = (fv.isnone, fv.val) if isinstance(fv, MaybeV) else (z3.BoolVal(False), fv)
                    lenval = None
                    if ins.length is not None and not ins.length.isdigit():
                        lf = self.lengths[ins.length]
                        lenval = z3.Length(v.t)
                    if ins.optional:
                        st["missing"] = simp(z3.Or(st["missing"], isnone))
                        present = z3.Not(st["missing"])
                    else:
                        need(z3.Not(isnone))
                        present = z3.BoolVal(True)
                    emit(value_piece(ex, V, tref, v, st["mode"], ins, lenval), None if not ins.optional else present)
                    # validity of the value, when present
                    conds = [value_valid(V, tref, v)]
                    if tref.kind in ("string", "encoded_string") and ins.length is not None:
                        n = z3.Length(v.t)
                        if ins.length.isdigit():
                            L = int(ins.length)
                            conds.append(n <= L if ins.padded else n == L)
                        else:
                            lf = self.lengths[ins.length]
                            lt = X.resolve_type(spec, lf.type)
                            conds.append(n <= lt.limit - 1 + lf.offset)
                    need(z3.Implies(z3.And(z3.Not(isnone), present), z3.And(*conds)))
                elif ins.tag == "length":
                    tref = X.resolve_type(spec, ins.type)
                    types[ins.name] = tref
                    ref = self.ref_of(ins.name)
                    rv = self.f[ref.name]
                    isnone, v = (rv.isnone, rv.val) if isinstance(rv, MaybeV) else (z3.BoolVal(False), rv)
                    if ins.optional:
                        st["missing"] = simp(z3.Or(st["missing"], isnone))
                    n = z3.Length(v.t) - ins.offset
                    emit(V.enc(ex, n, tref.under), None if not ins.optional else z3.Not(st["missing"]))
                    need(z3.Implies(z3.And(z3.Not(isnone), z3.Not(st["missing"])), n < tref.limit))
                elif ins.tag == "array":
                    tref = X.resolve_type(spec, ins.type)
                    fv = self.f[ins.name]
                    isnone, arr = (fv.isnone, fv.val) if isinstance(fv, MaybeV) else (z3.BoolVal(False), fv)
                    if ins.optional:
                        st["missing"] = simp(z3.Or(st["missing"], isnone))
                        present = z3.Not(st["missing"])
                    else:
                        need(z3.Not(isnone))
                        present = None
                    F = self.fold_fn(ins, arr.t.sort())
                    A = self.allvalid_fn(ins, arr.t.sort())
                    n = z3.Length(arr.t)
                    fmode = z3.BoolVal(False) if tref.kind in ("int", "enum", "bool") else st["mode"]
                    emit(F(arr.t, n, fmode), present)
                    conds = [A(arr.t, n)]
                    if ins.length is not None:
                        if ins.length.isdigit():
                            conds.append(n == int(ins.length))
                        else:
                            lf = self.lengths[ins.length]
                            lt = X.resolve_type(spec, lf.type)
                            conds.append(n <= lt.limit - 1 + lf.offset)
                    need(z3.Implies(z3.And(z3.Not(isnone), present if present is not None else z3.BoolVal(True)),
                                    z3.And(*conds)))
                elif ins.tag == "dummy":
                    tref = X.resolve_type(spec, ins.type)
                    emit(lit_piece(ex, V, tref, ins.value, st["mode"], ins), z3.Length(acc[0]) == 0)
                elif ins.tag == "break":
                    emit(V.enc(ex, I(0xFF), "byte"))
                    st["missing"] = z3.BoolVal(False)
                elif ins.tag == "chunked":
                    was = st["chunked"]
                    if not was:
                        st["chunked"] = True
                        st["mode"] = z3.BoolVal(True)
                    run(ins.body)
                    if not was:
                        st["chunked"] = False
                        st["mode"] = z3.BoolVal(False)
                elif ins.tag == "switch":
                    sv = self.f[ins.field]
                    isnone_s, v = (sv.isnone, sv.val) if isinstance(sv, MaybeV) else (z3.BoolVal(False), sv)
                    cd = self.f[ins.field + "_data"]
                    tref = types[ins.field]
                    piece = EMPTY
                    vcond = z3.BoolVal(True)
                    default = None
                    chain = []
                    for c in ins.cases:
                        if c.default:
                            default = c
                            continue
                        if tref.kind == "enum":
                            ev = tref.enum.by_name(c.value)
                            want = ev[1] if ev is not None else int(c.value)
                        else:
                            want = int(c.value)
                        chain.append((v == want, c))
                    # first matching case wins; default last
                    def case_terms(c):
                        if c is None:
                            return EMPTY, z3.BoolVal(True)
                        if not c.body:
                            return EMPTY, cd.isnone
                        cname = self.decl.name + "." + X.snake_to_pascal(ins.field) + "Data" + ("Default" if c.default else c.value)
                        return (V.WIRE(cname)(cd.val.t, st["mode"]),
                                z3.And(z3.Not(cd.isnone), V.CLSOF(cd.val.t) == V.cls_id(cname), V.VALID(cname)(cd.val.t)))
                    p, vc = case_terms(default)
                    for cond, c in reversed(chain):
                        cp, cv = case_terms(c)
                        p = z3.If(cond, cp, p)
                        vc = z3.If(cond, cv, vc)
                    emit(p)
                    need(vc)
        run(self.decl.body)
        return acc[0], z3.And(*valid) if valid else z3.BoolVal(True)


# ====================================================================== PARSE (reading rules)
from xmlsem.concrete import fixed_size as x_fixed_size
from .gen import RS


class ParseSpec:
    """The object the eo-protocol reading rules prescribe, as terms over the reader algebra
    (state transformers SKIP / NEXT / SETCH, observers REM / POS / CH, value functions)."""

    def __init__(self, ex, V, spec, decl, ctx_chunked):
        self.ex = ex
        self.V = V
        self.spec = spec
        self.decl = decl
        self.ctx_chunked = ctx_chunked
        self.flat = list(X.flatten_own(decl.body))
        self.lengths = {i.name: i for i in self.flat if i.tag == "length"}
        self.arrays = []          # per array instruction: dict with entry state, count, functions
        self.fields = {}
        self.ok = []              # conditions under which no ValueError is raised

    def cls(self, suffix):
        return self.decl.name.replace(".", "_") + "_" + suffix

    def read_value(self, tref, st, ins, lenvals):
        """(value, next state) of reading one value of type tref at state st"""
        ex, V = self.ex, self.V
        if tref.kind in ("int", "enum", "bool"):
            w = 0 if tref.under == "byte" else X.INT_WIDTH[tref.under]
            v = V.VINT(st, I(w))
            ns = V.skip(ex, st, I(1 if w == 0 else w))
            return (v != 0 if tref.kind == "bool" else v), ns
        if tref.kind in ("string", "encoded_string"):
            enc = z3.BoolVal(tref.kind == "encoded_string")
            if ins is not None and ins.tag == "field" and ins.length is not None:
                n = I(int(ins.length)) if ins.length.isdigit() else lenvals[ins.length]
                if not ins.length.isdigit():
                    self.ok.append(n >= 0)
                return ZSeq(V.VSTR(st, n, z3.BoolVal(bool(ins.padded)), enc), "int"), V.skip(ex, st, n)
            return ZSeq(V.VSTR(st, V.REM(st), z3.BoolVal(False), enc), "int"), V.skip(ex, st, V.REM(st))
        if tref.kind == "blob":
            return ZSeq(V.VBLOB(st), "int"), V.skip(ex, st, V.REM(st))
        if tref.kind == "struct":
            self.ok.append(V.PARSEOK(tref.name)(st))
            ns = V.PARSES(tref.name)(st)
            return ObjSym(V.PARSEV(tref.name)(st), tref.name), ns
        raise AssertionError(tref.kind)

    def lit_of(self, tref, text):
        if tref.kind == "int":
            return I(int(text))
        if tref.kind == "bool":
            return z3.BoolVal(text == "true")
        return ZSeq(self.ex.lit_bytes([ord(c) for c in text]), "int")

    def walk(self, s0):
        ex, V, spec = self.ex, self.V, self.spec
        st = {"s": s0, "chunked": self.ctx_chunked}
        lenvals = {}
        types = {}

        def run(body):
            for ins in body:
                if ins.tag == "field":
                    tref = tref_of(spec, ins)
                    if ins.name is not None:
                        types[ins.name] = tref
                    if ins.optional:
                        present = V.REM(st["s"]) > 0
                        v, ns = self.read_value(tref, st["s"], ins, lenvals)
                        self.fields[ins.name] = MaybeV(simp(z3.Not(present)), v) if ins.value is None \
                            else self.lit_of(tref, ins.value)         # the object always carries the literal
                        st["s"] = z3.If(present, ns, st["s"])
                        continue
                    v, ns = self.read_value(tref, st["s"], ins, lenvals)
                    st["s"] = ns
                    if ins.name is not None:
                        self.fields[ins.name] = self.lit_of(tref, ins.value) if ins.value is not None else v
                elif ins.tag == "length":
                    tref = X.resolve_type(spec, ins.type)
                    types[ins.name] = tref
                    v, ns = self.read_value(tref, st["s"], ins, lenvals)
                    if ins.optional:
                        # absent exactly when no data remains; the value is defined for a referencing field only while
                        # no <break> lies between the two (no data then remains for that field either, so it is absent)
                        if W.optional_length_across_break(self.decl, ins.name):
                            raise X.SpecError("optional length field referenced from a later chunk (reading rules leave "
                                              "the referenced length undefined)")
                        present = V.REM(st["s"]) > 0
                        lenvals[ins.name] = v + ins.offset
                        st["s"] = z3.If(present, ns, st["s"])
                        continue
                    lenvals[ins.name] = v + ins.offset
                    st["s"] = ns
                elif ins.tag == "array":
                    tref = X.resolve_type(spec, ins.type)
                    sort, elem = elem_sort(tref)
                    if sort is None:
                        raise X.SpecError("array element type outside the fragment")
                    # a fresh name for the entry state (quantifier patterns must not contain if-terms)
                    entry = ex.fresh("entry_" + ins.name, RS)
                    ex.fact(entry == st["s"])
                    V.state_facts(ex, entry)
                    n = None
                    if ins.length is not None:
                        n = I(int(ins.length)) if ins.length.isdigit() else lenvals[ins.length]
                    elif not ins.delimited:
                        z = x_fixed_size(spec, tref)
                        if z is not None:
                            if z == 0:
                                raise X.SpecError("zero-size array element (degenerate)")
                            n = V.REM(entry) / z
                    nm = self.cls(ins.name)
                    ITER = V.fn("ITER_" + nm, RS, INT, INT, RS)
                    ELEMS = V.fn("ELEMS_" + nm, RS, INT, INT, sort)
                    info = dict(ins=ins, entry=entry, n=n, ITER=ITER, ELEMS=ELEMS, sort=sort, elem=elem, tref=tref)
                    if n is None:
                        NSTOP = V.fn("NSTOP_" + nm, RS, INT)
                        N = NSTOP(entry)
                        nn = I(-1)
                        j = z3.Int("j!w")
                        # characterisation of the stopping index (existence = the termination obligation)
                        ex.fact(z3.And(N >= 0, V.REM(ITER(entry, nn, N)) <= 0,
                                       z3.ForAll([j], z3.Implies(z3.And(0 <= j, j < N), V.REM(ITER(entry, nn, j)) > 0),
                                                 patterns=[ITER(entry, nn, j)])))
                        final_i = N
                        info["N"] = N
                    else:
                        nn = n
                        final_i = z3.If(n >= 0, n, I(0))
                    info["nn"] = nn
                    ex.fact(ITER(entry, nn, I(0)) == entry)
                    ex.fact(ELEMS(entry, nn, I(0)) == z3.Empty(sort))
                    arr_val = ZSeq(ELEMS(entry, nn, final_i), elem)
                    after = ITER(entry, nn, final_i)
                    self.arrays.append(info)
                    if ins.optional:
                        present = V.REM(entry) > 0
                        self.fields[ins.name] = MaybeV(simp(z3.Not(present)), arr_val)
                        st["s"] = z3.If(present, after, entry)
                    else:
                        self.fields[ins.name] = arr_val
                        st["s"] = after
                elif ins.tag == "dummy":
                    tref = X.resolve_type(spec, ins.type)
                    v, ns = self.read_value(tref, st["s"], ins, lenvals)
                    st["s"] = z3.If(V.POS(st["s"]) == V.POS(s0), ns, st["s"])
                elif ins.tag == "break":
                    st["s"] = V.next(ex, st["s"])
                elif ins.tag == "chunked":
                    was = st["chunked"]
                    if not was:
                        st["chunked"] = True
                        st["s"] = V.setch(ex, st["s"], z3.BoolVal(True))
                    run(ins.body)
                    if not was:
                        st["chunked"] = False
                        st["s"] = V.setch(ex, st["s"], z3.BoolVal(False))
                elif ins.tag == "switch":
                    tref = types[ins.field]
                    v = self.fields[ins.field]
                    cur = st["s"]
                    default = None
                    chain = []
                    for c in ins.cases:
                        if c.default:
                            default = c
                            continue
                        if tref.kind == "enum":
                            ev = tref.enum.by_name(c.value)
                            want = ev[1] if ev is not None else int(c.value)
                        else:
                            want = int(c.value)
                        chain.append((v == want, c))

                    def case_terms(c):
                        if c is None or not c.body:
                            return z3.BoolVal(True), None, cur, z3.BoolVal(True)
                        cname = self.decl.name + "." + X.snake_to_pascal(ins.field) + "Data" + ("Default" if c.default else c.value)
                        return (z3.BoolVal(False), V.PARSEV(cname)(cur), V.PARSES(cname)(cur), V.PARSEOK(cname)(cur))
                    isnone, val, ns, ok = case_terms(default)
                    for cond, c in reversed(chain):
                        i2, v2, s2, o2 = case_terms(c)
                        isnone = z3.If(cond, i2, isnone)
                        if v2 is not None:
                            val = v2 if val is None else z3.If(cond, v2, val)
                        ns = z3.If(cond, s2, ns)
                        ok = z3.If(cond, o2, ok)
                    self.ok.append(ok)
                    if val is None:
                        val = z3.Const("noobj", OBJ)
                    self.fields[ins.field + "_data"] = MaybeV(simp(isnone), ObjSym(val, None))
                    st["s"] = ns
        run(self.decl.body)
        self.final = st["s"]
        return self.fields, self.final

    def body_step(self, info, x, i):
        """one iteration of the array loop from state x at index i: (element value, next state)"""
        ins = info["ins"]
        v, ns = self.read_value(info["tref"], x, None, {})
        if ins.delimited:
            n = info["n"]
            if n is None or ins.trailing:
                ns = self.V.next(self.ex, ns)
            else:
                ns = z3.If(i + 1 < n, self.V.next(self.ex, ns), ns)
        return v, ns

    def unfold(self, info, i):
        ex = self.ex
        ITER, ELEMS, entry, nn = info["ITER"], info["ELEMS"], info["entry"], info["nn"]
        x = ITER(entry, nn, i)
        self.V.state_facts(ex, x)
        saved_ok = list(self.ok)
        v, ns = self.body_step(info, x, i)
        self.ok = saved_ok
        from .gen import unit_of
        u, _ = unit_of(v)
        ex.fact(z3.Implies(i >= 0, ITER(entry, nn, i + 1) == ns))
        ex.fact(z3.Implies(i >= 0, ELEMS(entry, nn, i + 1) == z3.Concat(ELEMS(entry, nn, i), u)))
