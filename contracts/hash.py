from pyvc.api import contract
from contracts.spec import tmod, HASH, LIM


@contract("eolib.encrypt.server_verification_utils._mod")
class _mod:
    properties = ["C11"]
    sorts = dict(a="int", b="int", result="int")

    def requires(a, b):
        return [b > 0]

    def ensures(a, b, result):
        return [result == tmod(a, b)]


@contract("eolib.encrypt.server_verification_utils.server_verification_hash")
class server_verification_hash:
    properties = ["C11"]
    sorts = dict(challenge="int", result="int")
    # proof hint: the product of two remainders with a variable modulus is non-linear; splitting on
    # the two small residues (99 cases, exhaustiveness is its own obligation) makes every case linear
    split = [["(challenge + 1) % 9", 9], ["(challenge + 1) % 11", 11]]

    def requires(challenge):
        return [0 <= challenge, challenge < LIM(3)]

    def ensures(challenge, result):
        return [
            result == HASH(challenge),
            (not challenge <= 11092110) or (0 <= result and result < LIM(4)),
        ]
