"""C17 leaf guards: contracts on the generator's own validation functions - `raises RuntimeError
exactly when RULE(attributes, context)`, RULE taken from the property statement's rule list.
Strings are opaque (equality, len, isdigit, lower), dicts are abstract membership predicates, the
Type hierarchy is a kind tag.  What is NOT covered here: that the recursive walk hands every
instruction the context flags matching its syntactic position (the bounded part of C17)."""
from pyvc.api import contract, class_contract

FCG = "protocol_code_generator.generate.field_code_generator.FieldCodeGenerator"
T = "protocol_code_generator.type."


@class_contract("protocol_code_generator.type.type.Type")
class Type:
    # kind: 1 IntegerType 2 StringType 3 BoolType 4 EnumType 5 StructType 6 BlobType
    fields = dict(kind="int")
    abstract_props = dict(bounded="bool", name="pystr")
    kinds = {
        "protocol_code_generator.type.integer_type.IntegerType": [1],
        "protocol_code_generator.type.string_type.StringType": [2],
        "protocol_code_generator.type.bool_type.BoolType": [3],
        "protocol_code_generator.type.enum_type.EnumType": [4],
        "protocol_code_generator.type.struct_type.StructType": [5],
        "protocol_code_generator.type.blob_type.BlobType": [6],
        "protocol_code_generator.type.basic_type.BasicType": [1, 2, 3],
        "protocol_code_generator.type.has_underlying_type.HasUnderlyingType": [3, 4],
        "protocol_code_generator.type.custom_type.CustomType": [4, 5],
        "protocol_code_generator.type.type.Type": [1, 2, 3, 4, 5, 6],
    }

    def invariant(self):
        return [1 <= self.kind, self.kind <= 6]


@class_contract("protocol_code_generator.generate.object_code_generator.ObjectGenerationContext")
class ObjectGenerationContext:
    fields = dict(chunked_reading_enabled="bool", reached_optional_field="bool", reached_dummy="bool",
                  needs_old_writer_length_variable="bool", accessible_fields="dict",
                  length_field_is_referenced_map="dict")


@class_contract("protocol_code_generator.generate.field_code_generator.FieldCodeGenerator")
class FieldCodeGenerator:
    fields = dict(_name="Optional[pystr]", _type_string="pystr", _length_string="Optional[pystr]", _padded="bool",
                  _optional="bool", _hardcoded_value="Optional[pystr]", _array_field="bool", _delimited="bool",
                  _trailing_delimiter="bool", _length_field="bool", _offset="int",
                  _context="protocol_code_generator.generate.object_code_generator.ObjectGenerationContext",
                  _type_factory="opaque", _data="opaque", _comment="opaque",
                  # ghost: what the (trusted, pure) type resolution of this field yields
                  ghost_type_kind="int", ghost_type_bounded="bool")

    def invariant(self):
        return [1 <= self.ghost_type_kind, self.ghost_type_kind <= 6]


@contract("protocol_code_generator.generate.field_code_generator.FieldCodeGenerator._get_type")
class _get_type:
    trusted = True      # resolves the type string through TypeFactory (its own rejections are exercised in the bounded part)
    sorts = dict(result="protocol_code_generator.type.type.Type")
    uses_invariant = False

    def ensures(self, result):
        # pure: the same field always resolves to the same type
        return [result.kind == self.ghost_type_kind, result.bounded == self.ghost_type_bounded]


@contract("protocol_code_generator.util.number_utils.try_parse_int")
class try_parse_int:
    properties = ["C17"]
    trusted = True      # int(str) of CPython: external; PARSEABLE / INT_OF are its uninterpreted graph
    sorts = dict(value="Optional[pystr]", result="Optional[int]")

    def ensures(value, result):
        return [(result is None) == (value is None or not PARSEABLE(value)),
                result is None or result == INT_OF(value)]


def PARSEABLE(s):
    try:
        int(s)
        return True
    except ValueError:
        return False


def INT_OF(s):
    return int(s)


@contract(FCG + "._validate_special_fields")
class v_special:
    properties = ["C17"]

    def raises(self):
        return {RuntimeError: self._array_field and self._length_field}


@contract(FCG + "._validate_optional_field")
class v_optional:
    properties = ["C17"]

    def raises(self):
        # rule: an optional field must be named
        return {RuntimeError: self._optional and self._name is None}


@contract(FCG + "._validate_unnamed_field")
class v_unnamed:
    properties = ["C17"]

    def raises(self):
        # rules: unnamed fields need a hard-coded value; unnamed fields may not be optional
        return {RuntimeError: self._name is None and (self._hardcoded_value is None or self._optional)}


@contract(FCG + "._validate_unique_name")
class v_unique:
    properties = ["C17"]

    def raises(self):
        # rule: a field may not be redefined in its object scope
        return {RuntimeError: self._name is not None and self._name in self._context.accessible_fields}


@contract(FCG + "._validate_length_attribute")
class v_length_attr:
    properties = ["C17"]

    def raises(self):
        # rules: a length reference is a number or a length field in scope, referenced at most once
        return {RuntimeError: self._length_string is not None and (
            (not self._length_string.isdigit()
             and self._length_string not in self._context.length_field_is_referenced_map)
            or self._context.length_field_is_referenced_map.get(self._length_string, False))}


@contract(FCG + "._validate_array_field")
class v_array:
    properties = ["C17"]

    def raises(self):
        # rules: arrays are named, carry no hard-coded value, need a bounded element type unless delimited;
        # only arrays can be delimited
        return {RuntimeError: (self._array_field and (self._name is None
                                                      or (self._hardcoded_value is not None and len(self._hardcoded_value) != 0)
                                                      or (not self._delimited and not ELEM_BOUNDED(self))))
                or (not self._array_field and self._delimited)}


def ELEM_BOUNDED(g):
    """boundedness of the field's resolved type (observer of the trusted _get_type result)"""
    return g.ghost_type_bounded


@contract(FCG + "._validate_length_field")
class v_length_field:
    properties = ["C17"]

    def raises(self):
        # rules: length fields are named, carry no value and are of a numeric type; only they have an offset
        return {RuntimeError: (self._length_field and (self._name is None or self._hardcoded_value is not None
                                                       or TYPE_KIND(self) != 1))
                or (not self._length_field and self._offset != 0)}


def TYPE_KIND(g):
    return g.ghost_type_kind


@contract(FCG + "._validate_hardcoded_value")
class v_hardcoded:
    properties = ["C17"]

    def raises(self):
        # rules: hard-coded values only on basic types; a hard-coded string matches its literal length
        return {RuntimeError: self._hardcoded_value is not None and (
            (TYPE_KIND(self) != 1 and TYPE_KIND(self) != 2 and TYPE_KIND(self) != 3)
            or (TYPE_KIND(self) == 2 and self._length_string is not None and PARSEABLE(self._length_string)
                and INT_OF(self._length_string) != len(self._hardcoded_value)))}


@contract("protocol_code_generator.generate.object_code_generator.ObjectCodeGenerator._check_optional_field")
class check_optional:
    properties = ["C17"]
    sorts = dict(optional="bool")

    def raises(self, optional):
        # rule: a required field may not follow an optional one
        return {RuntimeError: self._context.reached_optional_field and not optional}


@class_contract("protocol_code_generator.generate.object_code_generator.ObjectCodeGenerator")
class ObjectCodeGenerator:
    fields = dict(_class_name="pystr", _type_factory="opaque",
                  _context="protocol_code_generator.generate.object_code_generator.ObjectGenerationContext",
                  _data="opaque")


@contract("protocol_code_generator.generate.code_generator.ProtocolCodeGenerator._make_packet_suffix")
class make_packet_suffix:
    properties = ["C17"]
    sorts = dict(path="pystr", result="pystr")

    def raises(path):
        # rule: packets live in net/client or net/server
        return {ValueError: path != "net/client" and path != "net/server"}

    def ensures(path, result):
        return [result == ("ClientPacket" if path == "net/client" else "ServerPacket")]


@contract("protocol_code_generator.type.type_factory.TypeFactory._create_type_with_specified_length")
class create_type_with_length:
    properties = ["C17"]
    sorts = dict(name="pystr", length="opaque", result="opaque")

    def raises(name):
        # rule: only string types may specify a length
        return {RuntimeError: name != "string" and name != "encoded_string"}


@class_contract("protocol_code_generator.type.length.Length")
class Length:
    fields = dict(_string="Optional[pystr]", _integer="Optional[int]")


@contract("protocol_code_generator.type.length.Length.from_string")
class length_from_string:
    trusted = True      # classmethod `cls(length_string)`: the constructor stores the string
    sorts = dict(cls="opaque", length_string="Optional[pystr]", result="protocol_code_generator.type.length.Length")

    def ensures(length_string, result):
        return [(result._string is None) == (length_string is None)]


@contract("protocol_code_generator.type.length.Length.unspecified")
class length_unspecified:
    trusted = True      # classmethod `cls(None)`
    sorts = dict(cls="opaque", result="protocol_code_generator.type.length.Length")

    def ensures(result):
        return [result._string is None]


@contract(FCG + "._get_type_length")
class get_type_length:
    properties = ["C17"]
    sorts = dict(result="protocol_code_generator.type.length.Length")

    def ensures(self, result):
        # rule "lengths on non-string types", first half: every length attribute of a field (literal OR the name of
        # a length field) reaches type resolution as a specified length; only arrays keep theirs for the loop
        return [(result._string is not None) == (not self._array_field and self._length_string is not None)]


@contract("protocol_code_generator.type.type_factory.TypeFactory.get_type")
class tf_get_type:
    properties = ["C17"]
    sorts = dict(self="opaque", name="pystr", length="Optional[protocol_code_generator.type.length.Length]", result="opaque")
    opaque_calls = "mayraise"

    def must_raise(name, length):
        # ... second half: a specified length on anything but the two string types is refused
        return {RuntimeError: length is not None and length._string is not None
                and name != "string" and name != "encoded_string"}


# ---- one-directional leaf guards (must_raise): a normal return implies the rule's condition did not
# hold on entry; string building / builders / XML accessors are opaque calls that may return anything
# and may raise
OCG = "protocol_code_generator.generate.object_code_generator.ObjectCodeGenerator"


def XBOOL(element, name, default):
    """protocol XML boolean attribute (xml_utils.get_boolean_attribute): pure function of its arguments"""
    t = element.get(name)
    return default if t is None else t.lower() == "true"


@contract("protocol_code_generator.util.xml_utils.get_boolean_attribute")
class get_boolean_attribute:
    trusted = True
    sorts = dict(element="record()", name="pystr", default_value="bool", result="bool")

    def ensures(element, name, default_value, result):
        return [result == XBOOL(element, name, default_value)]


@contract(OCG + ".generate_instruction")
class generate_instruction:
    properties = ["C17"]
    sorts = dict(instruction="record(tag=pystr)")
    opaque_calls = "mayraise"
    modifies = ["self._context.reached_optional_field", "self._context.reached_dummy",
                "self._context.chunked_reading_enabled", "self._context.needs_old_writer_length_variable"]

    def must_raise(self):
        # rule: nothing may follow a <dummy>, whatever kind of instruction it is
        return {RuntimeError: self._context.reached_dummy}

    def ensures(self, old_self):
        # placement: whatever the instruction (including a whole nested <chunked> section or <switch>), the
        # chunked flag an instruction's successors see is the one it saw itself
        return [self._context.chunked_reading_enabled == old_self._context.chunked_reading_enabled]


@contract(OCG + "._generate_field")
class generate_field_:
    properties = ["C17"]
    sorts = dict(protocol_field="record()")
    opaque_calls = "mayraise"
    modifies = ["self._context.reached_optional_field"]

    def must_raise(self, protocol_field):
        # rule: a required field may not follow an optional one
        return {RuntimeError: self._context.reached_optional_field and not XBOOL(protocol_field, "optional", False)}

    def ensures(self, old_self, protocol_field):
        # placement: from an optional field on, "an optional field was reached" holds
        return [self._context.reached_optional_field
                == (old_self._context.reached_optional_field or XBOOL(protocol_field, "optional", False))]


@contract(OCG + "._generate_length")
class generate_length_:
    properties = ["C17"]
    sorts = dict(protocol_length="record()")
    opaque_calls = "mayraise"
    modifies = ["self._context.reached_optional_field"]

    def must_raise(self, protocol_length):
        return {RuntimeError: self._context.reached_optional_field and not XBOOL(protocol_length, "optional", False)}

    def ensures(self, old_self, protocol_length):
        return [self._context.reached_optional_field
                == (old_self._context.reached_optional_field or XBOOL(protocol_length, "optional", False))]


@contract(OCG + "._generate_array")
class generate_array_:
    properties = ["C17"]
    sorts = dict(protocol_array="record()")
    opaque_calls = "mayraise"
    modifies = ["self._context.reached_optional_field"]

    def must_raise(self, protocol_array):
        # rules: required array after an optional field; delimited array outside a chunked section
        return {RuntimeError: (self._context.reached_optional_field and not XBOOL(protocol_array, "optional", False))
                or (XBOOL(protocol_array, "delimited", False) and not self._context.chunked_reading_enabled)}

    def ensures(self, old_self, protocol_array):
        return [self._context.reached_optional_field
                == (old_self._context.reached_optional_field or XBOOL(protocol_array, "optional", False))]


@contract(OCG + "._generate_break")
class generate_break_:
    properties = ["C17"]
    opaque_calls = "noraise"
    modifies = ["self._context.reached_optional_field", "self._context.reached_dummy"]

    def raises(self):
        # rule: <break> only inside a chunked section
        return {RuntimeError: not self._context.chunked_reading_enabled}

    def ensures(self):
        return [not self._context.reached_optional_field, not self._context.reached_dummy]


# ---- placement (C17 "wherever it occurs"): how the walk threads the three context flags through nested
# chunked sections, switches and case-data classes.  Each function gets the transfer property of its own
# step; that the flags an instruction sees are those of its syntactic position is the composition of
# these steps over the XML tree (structural induction: meta-step).  String building, builders and XML
# accessors are opaque calls; that no opaque callee writes one of the three flags is checked
# syntactically on every run (checks.c17.flag_frame_scan).
SCG = "protocol_code_generator.generate.switch_code_generator.SwitchCodeGenerator"
OGC = "protocol_code_generator.generate.object_code_generator.ObjectGenerationContext"


@class_contract(OCG)
class ObjectCodeGenerator:
    fields = dict(_context="protocol_code_generator.generate.object_code_generator.ObjectGenerationContext", _class_name="opaque", _type_factory="opaque", _data="opaque")


@class_contract(SCG)
class SwitchCodeGenerator:
    fields = dict(_context="protocol_code_generator.generate.object_code_generator.ObjectGenerationContext", _field_name="opaque", _type_factory="opaque", _data="opaque")


@contract("protocol_code_generator.generate.object_code_generator.ObjectGenerationData.__init__")
class ogd_init:
    trusted = True      # builds empty code blocks and lists; touches nothing else
    sorts = dict(class_name="opaque")


@contract(OCG + "._generate_dummy")
class generate_dummy_:
    properties = ["C17"]
    sorts = dict(protocol_dummy="record()")
    opaque_calls = "mayraise"
    modifies = ["self._context.reached_dummy", "self._context.needs_old_writer_length_variable"]

    def ensures(self):
        return [self._context.reached_dummy]


@contract(OCG + "._generate_chunked")
class generate_chunked_:
    properties = ["C17"]
    sorts = dict(protocol_chunked="record()")
    opaque_calls = "mayraise"
    modifies = ["self._context.reached_optional_field", "self._context.reached_dummy",
                "self._context.chunked_reading_enabled", "self._context.needs_old_writer_length_variable"]

    def inv_0(self):
        # every child of a <chunked> section is generated with the chunked flag on
        return [self._context.chunked_reading_enabled]

    def ensures(self, old_self):
        # ... and the flag is what it was once the section is closed
        return [self._context.chunked_reading_enabled == old_self._context.chunked_reading_enabled]


@contract(OCG + "._generate_switch")
class generate_switch_:
    properties = ["C17"]
    sorts = dict(protocol_switch="record()")
    opaque_calls = "mayraise"
    modifies = ["self._context.reached_optional_field", "self._context.reached_dummy"]

    def inv_0(self, old_self, reached_optional_field, reached_dummy):
        return [
            # the cases do not disturb the enclosing object's flags while they are generated ...
            self._context.reached_optional_field == old_self._context.reached_optional_field,
            self._context.reached_dummy == old_self._context.reached_dummy,
            self._context.chunked_reading_enabled == old_self._context.chunked_reading_enabled,
            # ... and what is accumulated never forgets what held before the switch
            (not old_self._context.reached_optional_field) or reached_optional_field,
            (not old_self._context.reached_dummy) or reached_dummy,
        ]

    def ensures(self, old_self):
        # an optional field / a dummy reached before a switch is still reached after it, whatever the cases do
        # (a <break> inside a case resets the case's copy only)
        return [(not old_self._context.reached_optional_field) or self._context.reached_optional_field,
                (not old_self._context.reached_dummy) or self._context.reached_dummy]


@contract(SCG + ".generate_case")
class generate_case_:
    properties = ["C17"]
    sorts = dict(protocol_case="record()", start="bool", result="protocol_code_generator.generate.object_code_generator.ObjectGenerationContext")
    opaque_calls = "mayraise"
    modifies = []

    def must_raise(protocol_case, start):
        # rule: a lone default case
        return {RuntimeError: XBOOL(protocol_case, "default", False) and start}

    def ensures(self, result):
        # the case-data class is generated in a COPY of the enclosing context (never the context itself) that
        # inherits the chunked flag of the switch's position
        return [result is not self._context,
                result.chunked_reading_enabled == self._context.chunked_reading_enabled]


@contract(SCG + ".generate_case_data_type")
class generate_case_data_type_:
    properties = ["C17"]
    sorts = dict(protocol_case="record()", case_data_type_name="opaque", case_context="protocol_code_generator.generate.object_code_generator.ObjectGenerationContext", result="opaque")
    opaque_calls = "mayraise"
    modifies = ["case_context.reached_optional_field", "case_context.reached_dummy",
                "case_context.needs_old_writer_length_variable"]

    def requires(self, case_context):
        # the instructions of a case start from the flags of the switch's position
        return [case_context is not self._context,
                case_context.chunked_reading_enabled == self._context.chunked_reading_enabled,
                case_context.reached_optional_field == self._context.reached_optional_field,
                case_context.reached_dummy == self._context.reached_dummy]

    def inv_0(self, object_code_generator, case_context, old_case_context):
        # the generator of the case-data class works ON the context it was handed (so that the flags the case
        # body sets are the ones _generate_switch reads back), in the chunked state of the switch
        return [object_code_generator._context is case_context,
                case_context.chunked_reading_enabled == old_case_context.chunked_reading_enabled]

    def ensures(self, case_context, old_case_context):
        return [case_context.chunked_reading_enabled == old_case_context.chunked_reading_enabled]
