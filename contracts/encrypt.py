from pyvc.api import contract, trigger
from contracts.spec import srcI, srcD, FLIP, M, Run


@contract("eolib.encrypt.encryption_utils.interleave")
class interleave:
    properties = ["C10"]
    sorts = dict(data="bytearray")
    modifies = ["data"]

    def ensures(data, old_data):
        return [
            len(data) == len(old_data),
            all(data[j] == old_data[srcI(len(old_data), j)] for j in range(len(old_data))),
        ]

    def inv_0(data, old_data, buffer, i, ii):
        return [
            len(data) == len(old_data),
            all(data[j] == old_data[j] for j in range(len(old_data))),
            len(buffer) == len(data),
            i == 2 * ii,
            0 <= ii,
            i <= len(data) + 1,
            all(buffer[j] == data[j // 2] for j in range(0, i) if j % 2 == 0),
        ]

    def variant_0(data, i):
        return len(data) + 2 - i

    def inv_1(data, old_data, buffer, i, ii):
        return [
            len(data) == len(old_data),
            all(data[j] == old_data[j] for j in range(len(old_data))),
            len(buffer) == len(data),
            2 * ii + i == 2 * len(data) - 1,
            i >= -1,
            i % 2 == 1,
            i < len(data),
            all(buffer[j] == data[j // 2] for j in range(len(data)) if j % 2 == 0),
            all(buffer[j] == data[len(data) - 1 - j // 2] for j in range(i + 1, len(data)) if j % 2 == 1),
        ]

    def variant_1(i):
        return i + 2


@contract("eolib.encrypt.encryption_utils.deinterleave")
class deinterleave:
    properties = ["C10"]
    sorts = dict(data="bytearray")
    modifies = ["data"]

    def ensures(data, old_data):
        return [
            len(data) == len(old_data),
            all(data[k] == old_data[srcD(len(old_data), k)] for k in range(len(old_data))),
        ]

    def inv_0(data, old_data, buffer, i, ii):
        return [
            len(data) == len(old_data),
            all(data[j] == old_data[j] for j in range(len(old_data))),
            len(buffer) == len(data),
            i == 2 * ii,
            0 <= ii,
            i <= len(data) + 1,
            all(buffer[k] == data[2 * k] for k in range(0, ii)),
        ]

    def variant_0(data, i):
        return len(data) + 2 - i

    def inv_1(data, old_data, buffer, i, ii):
        return [
            len(data) == len(old_data),
            all(data[j] == old_data[j] for j in range(len(old_data))),
            len(buffer) == len(data),
            2 * ii + i == 2 * len(data) - 1,
            i >= -1,
            i % 2 == 1,
            i < len(data),
            all(buffer[k] == data[2 * k] for k in range(0, (len(data) + 1) // 2)),
            all(buffer[k] == data[2 * (len(data) - k) - 1] for k in range((len(data) + 1) // 2, ii)),
        ]

    def variant_1(i):
        return i + 2


@contract("eolib.encrypt.encryption_utils.flip_msb")
class flip_msb:
    properties = ["C10"]
    sorts = dict(data="bytearray")
    modifies = ["data"]

    def ensures(data, old_data):
        return [
            len(data) == len(old_data),
            all(data[j] == FLIP(old_data[j]) for j in range(len(old_data))),
        ]

    def inv_0(data, old_data, i):
        return [
            len(data) == len(old_data),
            all(data[j] == FLIP(old_data[j]) for j in range(0, i)),
            all(data[j] == old_data[j] for j in range(i, len(old_data))),
        ]


@contract("eolib.encrypt.encryption_utils.swap_multiples")
class swap_multiples:
    properties = ["C10"]
    sorts = dict(data="bytearray", multiple="int")
    modifies = ["data"]

    def raises(multiple):
        return {ValueError: multiple < 0}

    def ensures(data, old_data, multiple):
        return [
            len(data) == len(old_data),
            multiple != 0 or all(data[j] == old_data[j] for j in range(len(old_data))),
            multiple <= 0 or all(M(data[j], multiple) == M(old_data[j], multiple) for j in range(len(old_data))),
            multiple <= 0 or all(M(old_data[j], multiple) or data[j] == old_data[j] for j in range(len(old_data))),
            multiple <= 0 or all((not (trigger(a, b, j) and Run(old_data, multiple, a, b) and a <= j and j < b))
                                 or data[j] == old_data[a + b - 1 - j]
                                 for a in range(0, len(old_data)) for b in range(0, len(old_data) + 1)
                                 for j in range(0, len(old_data))),
        ]

    # outer loop: i = index about to be examined, [i - sequence_length, i) is the open run
    def inv_0(data, old_data, multiple, i, sequence_length):
        return [
            multiple > 0,
            len(data) == len(old_data),
            0 <= sequence_length,
            sequence_length <= i,
            i <= len(data) or sequence_length == 0,
            all(M(old_data[k], multiple) for k in range(i - sequence_length, i)),
            i - sequence_length == 0 or i - sequence_length > len(data) or not M(old_data[i - sequence_length - 1], multiple),
            all(data[k] == old_data[k] for k in range(i - sequence_length, len(data))),
            all(M(data[k], multiple) == M(old_data[k], multiple) for k in range(len(data))),
            all(M(old_data[k], multiple) or data[k] == old_data[k] for k in range(len(data))),
            all((not (trigger(a, b, j) and Run(old_data, multiple, a, b) and b <= i - sequence_length and a <= j and j < b))
                or data[j] == old_data[a + b - 1 - j]
                for a in range(0, len(old_data)) for b in range(0, len(old_data) + 1)
                for j in range(0, len(old_data))),
        ]

    # inner loop: pairwise swap of the closed run [p, i), p = i - sequence_length
    def inv_1(data, old_data, multiple, i, sequence_length, ii):
        return [
            multiple > 0,
            len(data) == len(old_data),
            sequence_length > 1,
            sequence_length <= i,
            i <= len(data),
            0 <= ii,
            ii <= sequence_length // 2,
            i == len(data) or not M(old_data[i], multiple),
            all(M(old_data[k], multiple) for k in range(i - sequence_length, i)),
            i - sequence_length == 0 or not M(old_data[i - sequence_length - 1], multiple),
            all(data[k] == old_data[i - sequence_length + i - 1 - k] for k in range(i - sequence_length, i - sequence_length + ii)),
            all(data[k] == old_data[i - sequence_length + i - 1 - k] for k in range(i - ii, i)),
            all(data[k] == old_data[k] for k in range(i - sequence_length + ii, i - ii)),
            all(data[k] == old_data[k] for k in range(i, len(data))),
            all(M(data[k], multiple) == M(old_data[k], multiple) for k in range(0, i - sequence_length)),
            all(M(old_data[k], multiple) or data[k] == old_data[k] for k in range(0, i - sequence_length)),
            all((not (trigger(a, b, j) and Run(old_data, multiple, a, b) and b <= i - sequence_length and a <= j and j < b))
                or data[j] == old_data[a + b - 1 - j]
                for a in range(0, len(old_data)) for b in range(0, len(old_data) + 1)
                for j in range(0, len(old_data))),
        ]

    # proof hint at the exit of the inner loop: the whole closed run is now reversed
    def exit_1(data, old_data, i, sequence_length):
        return [
            all(data[k] == old_data[i - sequence_length + i - 1 - k] for k in range(i - sequence_length, i)),
        ]
