from pyvc.api import contract, class_contract
from contracts.spec import DEC, isNB, REM, TAKE, CP_D, T, flipAt

INLINE = ["eolib.data.eo_reader.EoReader._decode_ansi"]
R = "eolib.data.eo_reader.EoReader"


@class_contract("eolib.data.eo_reader.EoReader")
class EoReader:
    fields = dict(_data="memoryview", _position="int", _chunked_reading_mode="bool", _chunk_start="int",
                  _next_break="int")

    def invariant(self):
        return [
            0 <= self._position, self._position <= len(self._data),
            0 <= self._chunk_start, self._chunk_start <= len(self._data),
            self._chunk_start <= self._position,
            self._next_break != -1 or (not self._chunked_reading_mode and self._chunk_start == 0),
            self._next_break == -1 or isNB(self._data, self._chunk_start, self._next_break),
        ]

    def native_generate(rng, nat):
        from eolib.data.eo_reader import EoReader as Real
        n = rng.randrange(0, 10)
        alpha = rng.choice([[0, 1, 0xFE, 0xFF], [0xFF, 0x41, 0x7E, 0x22], list(range(256))])
        r = Real(bytes(rng.choice(alpha) for _ in range(n)))
        for _ in range(rng.randrange(0, 6)):
            op = rng.randrange(0, 8)
            if op == 0:
                r.chunked_reading_mode = rng.random() < 0.7
            elif op == 1 and r.chunked_reading_mode:
                r.next_chunk()
            elif op == 2:
                r.get_byte()
            elif op == 3:
                r.get_short()
            elif op == 4:
                r.get_bytes(rng.randrange(0, 4))
            elif op == 5:
                r.get_fixed_string(rng.randrange(0, 4), rng.random() < 0.5)
            elif op == 6:
                r = r.slice(rng.randrange(0, 6), rng.randrange(0, 8))
            elif op == 7:
                r.get_char()
        return r

    def native_snapshot(r):
        new = object.__new__(type(r))
        new.__dict__.update(r.__dict__)
        return new


@contract("eolib.data.eo_reader.EoReader.__init__")
class init:
    properties = ["C05", "C04", "C06"]
    sorts = dict(data="bytes")

    def ensures(self, data):
        return [
            len(self._data) == len(data),
            all(self._data[k] == data[k] for k in range(len(data))),
            self._position == 0,
            not self._chunked_reading_mode,
            self._chunk_start == 0,
            self._next_break == -1,
        ]


@contract("eolib.data.eo_reader.EoReader._find_next_break_index")
class _find_next_break_index:
    properties = ["C05", "C06"]
    uses_invariant = False

    def requires(self):
        return [0 <= self._chunk_start, self._chunk_start <= len(self._data)]

    def ensures(self, result):
        return [isNB(self._data, self._chunk_start, result)]

    def inv_0(self, i):
        return [all(self._data[k] != 0xFF for k in range(self._chunk_start, i))]


@contract("eolib.data.eo_reader.EoReader.chunked_reading_mode.setter")
class set_chunked:
    properties = ["C05", "C15"]
    sorts = dict(chunked_reading_mode="bool")
    modifies = ["self._chunked_reading_mode", "self._next_break"]
    uses_invariant = True

    def ensures(self, old_self, chunked_reading_mode):
        return [
            self._chunked_reading_mode == chunked_reading_mode,
            self._next_break != -1,
            old_self._next_break == -1 or self._next_break == old_self._next_break,
        ]


@contract("eolib.data.eo_reader.EoReader.remaining")
class remaining:
    properties = ["C05"]
    uses_invariant = True

    def ensures(self, result):
        return [result == REM(self), result >= 0]


@contract("eolib.data.eo_reader.EoReader.next_chunk")
class next_chunk:
    properties = ["C05", "C06"]
    modifies = ["self._position", "self._chunk_start", "self._next_break"]

    def raises(self):
        return {RuntimeError: not self._chunked_reading_mode}

    def ensures(self, old_self):
        return [
            # just past the break of the current chunk, or the end of data: a function of (data,
            # chunk start) only - the old position plays no part (C06 rests on this)
            self._position == (old_self._next_break + 1 if old_self._next_break < len(self._data)
                               else old_self._next_break),
            self._chunk_start == self._position,
            isNB(self._data, self._chunk_start, self._next_break),
        ]


@contract("eolib.data.eo_reader.EoReader._read_byte")
class _read_byte:
    properties = ["C05"]
    uses_invariant = True
    modifies = ["self._position"]

    def ensures(self, old_self, result):
        return [
            REM(old_self) <= 0 or (result == old_self._data[old_self._position]
                                   and self._position == old_self._position + 1),
            REM(old_self) > 0 or (result == 0 and self._position == old_self._position),
        ]


@contract("eolib.data.eo_reader.EoReader._read_bytes")
class _read_bytes:
    properties = ["C05"]
    uses_invariant = True
    sorts = dict(length="int", result="bytearray")
    modifies = ["self._position"]

    def requires(self, length):
        return [length >= 0]

    def ensures(self, old_self, length, result):
        return [
            len(result) == TAKE(old_self, length),
            all(result[j] == old_self._data[old_self._position + j] for j in range(len(result))),
            self._position == old_self._position + TAKE(old_self, length),
        ]


@contract("eolib.data.eo_reader.EoReader.get_byte")
class get_byte:
    properties = ["C05", "C04"]
    modifies = ["self._position"]

    def ensures(self, old_self, result):
        return [
            REM(old_self) <= 0 or (result == old_self._data[old_self._position]
                                   and self._position == old_self._position + 1),
            REM(old_self) > 0 or (result == 0 and self._position == old_self._position),
        ]


@contract("eolib.data.eo_reader.EoReader.get_bytes")
class get_bytes:
    properties = ["C05", "C04"]
    sorts = dict(length="int", result="bytearray")
    modifies = ["self._position"]

    def requires(self, length):
        return [length >= 0]

    def ensures(self, old_self, length, result):
        return [
            len(result) == TAKE(old_self, length),
            all(result[j] == old_self._data[old_self._position + j] for j in range(len(result))),
            self._position == old_self._position + TAKE(old_self, length),
        ]


@contract("eolib.data.eo_reader.EoReader.get_char")
class get_char:
    properties = ["C05", "C04", "C06"]
    modifies = ["self._position"]

    def ensures(self, old_self, result):
        return [
            result == DEC(old_self._data[old_self._position:old_self._position + TAKE(old_self, 1)]),
            self._position == old_self._position + TAKE(old_self, 1),
        ]


@contract("eolib.data.eo_reader.EoReader.get_short")
class get_short:
    properties = ["C05", "C04", "C06"]
    modifies = ["self._position"]

    def ensures(self, old_self, result):
        return [
            result == DEC(old_self._data[old_self._position:old_self._position + TAKE(old_self, 2)]),
            self._position == old_self._position + TAKE(old_self, 2),
        ]


@contract("eolib.data.eo_reader.EoReader.get_three")
class get_three:
    properties = ["C05", "C04", "C06"]
    modifies = ["self._position"]

    def ensures(self, old_self, result):
        return [
            result == DEC(old_self._data[old_self._position:old_self._position + TAKE(old_self, 3)]),
            self._position == old_self._position + TAKE(old_self, 3),
        ]


@contract("eolib.data.eo_reader.EoReader.get_int")
class get_int:
    properties = ["C05", "C04", "C06"]
    modifies = ["self._position"]

    def ensures(self, old_self, result):
        return [
            result == DEC(old_self._data[old_self._position:old_self._position + TAKE(old_self, 4)]),
            self._position == old_self._position + TAKE(old_self, 4),
        ]


@contract("eolib.data.eo_reader.EoReader.get_string")
class get_string:
    properties = ["C05", "C04", "C06"]
    modifies = ["self._position"]

    def ensures(self, old_self, result):
        return [
            len(result) == REM(old_self),
            all(ord(result[j]) == CP_D(old_self._data[old_self._position + j]) for j in range(len(result))),
            self._position == old_self._position + REM(old_self),
        ]


@contract("eolib.data.eo_reader.EoReader._remove_padding")
class _remove_padding:
    properties = ["C05"]
    sorts = dict(array="bytearray", result="bytearray")

    def ensures(array, result):
        return [
            len(result) <= len(array),
            all(result[k] == array[k] and result[k] != 0xFF for k in range(len(result))),
            len(result) == len(array) or array[len(result)] == 0xFF,
        ]


@contract("eolib.data.eo_reader.EoReader.get_fixed_string")
class get_fixed_string:
    properties = ["C05", "C04", "C03"]
    sorts = dict(length="int", padded="bool")
    modifies = ["self._position"]

    def raises(length):
        return {ValueError: length < 0}

    def ensures(self, old_self, length, padded, result):
        return [
            self._position == old_self._position + TAKE(old_self, length),
            all(ord(result[j]) == CP_D(old_self._data[old_self._position + j]) for j in range(len(result))),
            padded or len(result) == TAKE(old_self, length),
            not padded or len(result) <= TAKE(old_self, length),
            not padded or all(old_self._data[old_self._position + j] != 0xFF
                              and ord(result[j]) == CP_D(old_self._data[old_self._position + j])
                              for j in range(len(result))),
            not padded or (len(result) == TAKE(old_self, length)
                           or old_self._data[old_self._position + len(result)] == 0xFF),
        ]


@contract("eolib.data.eo_reader.EoReader.get_encoded_string")
class get_encoded_string:
    properties = ["C05", "C04"]
    modifies = ["self._position"]

    def ensures(self, old_self, result):
        return [
            len(result) == REM(old_self),
            all(ord(result[j]) == CP_D(T(old_self._data[old_self._position + REM(old_self) - 1 - j],
                                    flipAt(j, REM(old_self)))) for j in range(len(result))),
            self._position == old_self._position + REM(old_self),
        ]


@contract("eolib.data.eo_reader.EoReader.get_fixed_encoded_string")
class get_fixed_encoded_string:
    properties = ["C05", "C04", "C03"]
    sorts = dict(length="int", padded="bool")
    modifies = ["self._position"]

    def raises(length):
        return {ValueError: length < 0}

    def ensures(self, old_self, length, padded, result):
        return [
            self._position == old_self._position + TAKE(old_self, length),
            all(ord(result[j]) == CP_D(T(old_self._data[old_self._position + TAKE(old_self, length) - 1 - j],
                                    flipAt(j, TAKE(old_self, length)))) for j in range(len(result))),
            padded or len(result) == TAKE(old_self, length),
            not padded or len(result) <= TAKE(old_self, length),
            # (the D-image conjunct repeats the clause above so that the negated goal mentions
            # result[j], which is what instantiates the callee posts)
            not padded or all(T(old_self._data[old_self._position + TAKE(old_self, length) - 1 - j],
                                flipAt(j, TAKE(old_self, length))) != 0xFF
                              and ord(result[j]) == CP_D(T(old_self._data[old_self._position + TAKE(old_self, length) - 1 - j],
                                                           flipAt(j, TAKE(old_self, length))))
                              for j in range(len(result))),
            not padded or (len(result) == TAKE(old_self, length)
                           or T(old_self._data[old_self._position + TAKE(old_self, length) - 1 - len(result)],
                                flipAt(len(result), TAKE(old_self, length))) == 0xFF),
        ]


@contract("eolib.data.eo_reader.EoReader.slice")
class slice_:
    properties = ["C05"]
    sorts = dict(index="Optional[int]", length="Optional[int]", result="eolib.data.eo_reader.EoReader")

    def raises(index, length):
        return {ValueError: (index is not None and index < 0) or (length is not None and length < 0)}

    def ensures(self, index, length, result):
        return [
            result._position == 0,
            not result._chunked_reading_mode,
            result._chunk_start == 0,
            result._next_break == -1,
            # an independent reader over exactly the requested clipped sub-range
            len(result._data) == SLICE_END(self, index, length) - SLICE_BEGIN(self, index),
            all(result._data[j] == self._data[SLICE_BEGIN(self, index) + j] for j in range(len(result._data))),
        ]


def SLICE_BEGIN(r, index):
    idx = r._position if index is None else index
    return max(0, min(len(r._data), idx))


def SLICE_END(r, index, length):
    idx = r._position if index is None else index
    ln = max(0, len(r._data) - idx) if length is None else length
    begin = max(0, min(len(r._data), idx))
    return begin + min(len(r._data) - begin, ln)
