from pyvc.api import contract
from contracts.spec import T, flipAt


@contract("eolib.data.string_encoding_utils._invert_characters")
class _invert_characters:
    properties = ["C08"]
    sorts = dict(bytes="bytearray")
    modifies = ["bytes"]

    def ensures(bytes, old_bytes):
        return [
            len(bytes) == len(old_bytes),
            all(bytes[j] == T(old_bytes[j], flipAt(j, len(old_bytes))) for j in range(len(old_bytes))),
        ]

    def inv_0(bytes, old_bytes, i, flippy):
        return [
            len(bytes) == len(old_bytes),
            flippy == flipAt(i, len(old_bytes)),
            all(bytes[j] == T(old_bytes[j], flipAt(j, len(old_bytes))) for j in range(0, i)),
            all(bytes[j] == old_bytes[j] for j in range(i, len(old_bytes))),
        ]


@contract("eolib.data.string_encoding_utils.encode_string")
class encode_string:
    properties = ["C08", "C09", "C04"]
    sorts = dict(bytes="bytearray")
    modifies = ["bytes"]

    def ensures(bytes, old_bytes):
        return [
            len(bytes) == len(old_bytes),
            all(bytes[j] == T(old_bytes[len(old_bytes) - 1 - j], flipAt(len(old_bytes) - 1 - j, len(old_bytes)))
                for j in range(len(old_bytes))),
        ]


@contract("eolib.data.string_encoding_utils.decode_string")
class decode_string:
    properties = ["C08", "C05", "C04"]
    sorts = dict(bytes="bytearray")
    modifies = ["bytes"]

    def ensures(bytes, old_bytes):
        return [
            len(bytes) == len(old_bytes),
            all(bytes[j] == T(old_bytes[len(old_bytes) - 1 - j], flipAt(j, len(old_bytes)))
                for j in range(len(old_bytes))),
        ]
