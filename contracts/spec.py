"""Spec vocabulary (DESIGN.md section 2).  Plain Python: the engine interprets these definitions
symbolically (loop-free after unrolling of literal ranges) and the runtime harness calls them."""


def LIM(k):
    return 253 ** k


def DEC(b):
    """Documented positional formula: sum of (byte-1)*253^i up to the first 0xFE, at most 4 bytes."""
    n = min(len(b), 4)
    if n <= 0 or b[0] == 0xFE:
        return 0
    r0 = b[0] - 1
    if n <= 1 or b[1] == 0xFE:
        return r0
    r1 = r0 + (b[1] - 1) * 253
    if n <= 2 or b[2] == 0xFE:
        return r1
    r2 = r1 + (b[2] - 1) * 64009
    if n <= 3 or b[3] == 0xFE:
        return r2
    return r2 + (b[3] - 1) * 16194277


def ENCB(v, j):
    """j-th byte (j in 0..3) of the EO encoding of v, 0 <= v < 253^4 - from the property statement:
    little-endian base-253 digits plus one, 0xFE filler for digits beyond the number's width."""
    if j == 0:
        return v % 253 + 1
    if j == 1:
        return 0xFE if v < 253 else (v // 253) % 253 + 1
    if j == 2:
        return 0xFE if v < 64009 else (v // 64009) % 253 + 1
    return 0xFE if v < 16194277 else (v // 16194277) % 253 + 1


def T(c, flip):
    """Per-byte reflection of the EO string encoding: identity outside 0x22..0x7E; inside, 0x9F - c,
    shifted by -/+0x2E on 'flip' positions (below / from 0x50)."""
    if c < 0x22 or c > 0x7E:
        return c
    if not flip:
        return 0x9F - c
    if c >= 0x50:
        return 0x9F - c + 0x2E
    return 0x9F - c - 0x2E


def flipAt(i, n):
    return (n + i) % 2 == 1


def srcI(n, j):
    """interleave: output position j of an n-byte buffer takes input position srcI(n, j)."""
    if j % 2 == 0:
        return j // 2
    return n - 1 - j // 2


def srcD(n, k):
    """deinterleave: output position k takes input position srcD(n, k)."""
    if 2 * k < n:
        return 2 * k
    return 2 * (n - k) - 1


def FLIP(b):
    """flip_msb on one byte: toggles bit 7 unless the low seven bits are all zero."""
    if b % 128 == 0:
        return b
    if b < 128:
        return b + 128
    return b - 128


def M(v, m):
    return v % m == 0


def Run(x, m, a, b):
    """[a, b) is a maximal run of multiples of m in x."""
    return (0 <= a and a < b and b <= len(x)
            and all(M(x[k], m) for k in range(a, b))
            and (a == 0 or not M(x[a - 1], m))
            and (b == len(x) or not M(x[b], m)))


def tmod(a, b):
    """Truncating (C-style) remainder for a positive divisor."""
    if a >= 0:
        return a % b
    return -((-a) % b)


def HASH(challenge):
    """The game client's handshake hash: the published formula with truncating remainder."""
    c = challenge + 1
    return 110905 + (tmod(c, 9) + 1) * tmod(11092004 - c, (tmod(c, 11) + 1) * 119) * 119 + tmod(c, 2004)


# ---- windows-1252 with errors='replace': an external, stateless, pointwise codec.  Natively the
# tables are CPython's; symbolically they are the uninterpreted functions E / D with range axioms.
def CP_E(c):
    """code point -> byte"""
    return chr(c).encode("windows-1252", "replace")[0]


def CP_D(b):
    """byte -> code point"""
    return ord(bytes([b]).decode("windows-1252", "replace"))


# ---- chunked reading model (C05)
def isNB(data, cs, r):
    """r is the next break of the chunk starting at cs: first index >= cs holding 0xFF, else len."""
    return (0 <= cs and cs <= r and r <= len(data) and all(data[k] != 0xFF for k in range(cs, r))
            and (r == len(data) or data[r] == 0xFF))


def REM(r):
    """remaining bytes of reader state r: up to the next break of the current chunk in chunked
    mode, up to the end of data otherwise; never negative."""
    if r._chunked_reading_mode:
        return r._next_break - min(r._position, r._next_break)
    return len(r._data) - r._position


def TAKE(r, length):
    """how many bytes a read of `length` consumes"""
    return min(length, REM(r))


def SANB(b, san):
    """string sanitisation of one byte: y-diaeresis (0xFF) becomes 'y' (0x79) when the mode is on"""
    if san and b == 0xFF:
        return 0x79
    return b
