"""Spec vocabulary (DESIGN.md section 2).  Plain Python: the engine interprets these definitions
symbolically (loop-free after unrolling of literal ranges) and the runtime harness calls them."""


def LIM(k):
    return 253 ** k


def DEC(b):
    """Documented positional formula: sum of (byte-1)*253^i up to the first 0xFE, at most 4 bytes."""
    n = min(len(b), 4)
    if n <= 0 or b[0] == 0xFE:
        return 0
    r0 = b[0] - 1
    if n <= 1 or b[1] == 0xFE:
        return r0
    r1 = r0 + (b[1] - 1) * 253
    if n <= 2 or b[2] == 0xFE:
        return r1
    r2 = r1 + (b[2] - 1) * 64009
    if n <= 3 or b[3] == 0xFE:
        return r2
    return r2 + (b[3] - 1) * 16194277


def ENCB(v, j):
    """j-th byte (j in 0..3) of the EO encoding of v, 0 <= v < 253^4 - from the property statement:
    little-endian base-253 digits plus one, 0xFE filler for digits beyond the number's width."""
    if j == 0:
        return v % 253 + 1
    if j == 1:
        return 0xFE if v < 253 else (v // 253) % 253 + 1
    if j == 2:
        return 0xFE if v < 64009 else (v // 64009) % 253 + 1
    return 0xFE if v < 16194277 else (v // 16194277) % 253 + 1


def T(c, flip):
    """Per-byte reflection of the EO string encoding: identity outside 0x22..0x7E; inside, 0x9F - c,
    shifted by -/+0x2E on 'flip' positions (below / from 0x50)."""
    if c < 0x22 or c > 0x7E:
        return c
    if not flip:
        return 0x9F - c
    if c >= 0x50:
        return 0x9F - c + 0x2E
    return 0x9F - c - 0x2E


def flipAt(i, n):
    return (n + i) % 2 == 1


def srcI(n, j):
    """interleave: output position j of an n-byte buffer takes input position srcI(n, j)."""
    if j % 2 == 0:
        return j // 2
    return n - 1 - j // 2


def srcD(n, k):
    """deinterleave: output position k takes input position srcD(n, k)."""
    if 2 * k < n:
        return 2 * k
    return 2 * (n - k) - 1


def FLIP(b):
    """flip_msb on one byte: toggles bit 7 unless the low seven bits are all zero."""
    if b % 128 == 0:
        return b
    if b < 128:
        return b + 128
    return b - 128


def M(v, m):
    return v % m == 0


def Run(x, m, a, b):
    """[a, b) is a maximal run of multiples of m in x."""
    return (0 <= a and a < b and b <= len(x)
            and all(M(x[k], m) for k in range(a, b))
            and (a == 0 or not M(x[a - 1], m))
            and (b == len(x) or not M(x[b], m)))


def tmod(a, b):
    """Truncating (C-style) remainder for a positive divisor."""
    if a >= 0:
        return a % b
    return -((-a) % b)


def HASH(challenge):
    """The game client's handshake hash: the published formula with truncating remainder."""
    c = challenge + 1
    return 110905 + (tmod(c, 9) + 1) * tmod(11092004 - c, (tmod(c, 11) + 1) * 119) * 119 + tmod(c, 2004)


# ---- windows-1252 with errors='replace': an external, stateless, pointwise codec.  Natively the
# tables are CPython's; symbolically they are the uninterpreted functions E / D with range axioms.
def CP_E(c):
    """code point -> byte"""
    return chr(c).encode("windows-1252", "replace")[0]


def CP_D(b):
    """byte -> code point"""
    return ord(bytes([b]).decode("windows-1252", "replace"))


# ---- chunked reading model (C05)
def isNB(data, cs, r):
    """r is the next break of the chunk starting at cs: first index >= cs holding 0xFF, else len."""
    return (0 <= cs and cs <= r and r <= len(data) and all(data[k] != 0xFF for k in range(cs, r))
            and (r == len(data) or data[r] == 0xFF))


def REM(r):
    """remaining bytes of reader state r: up to the next break of the current chunk in chunked
    mode, up to the end of data otherwise; never negative."""
    if r._chunked_reading_mode:
        return r._next_break - min(r._position, r._next_break)
    return len(r._data) - r._position


def TAKE(r, length):
    """how many bytes a read of `length` consumes"""
    return min(length, REM(r))


def SANB(b, san):
    """string sanitisation of one byte: y-diaeresis (0xFF) becomes 'y' (0x79) when the mode is on"""
    if san and b == 0xFF:
        return 0x79
    return b


# ---- the reader algebra of E2 (pyvc.gen.Vocab): ONE text, three consumers - asserted symbolically on the
# abstract reader states of E2 (Vocab.skip / setch / next evaluate these functions on z3 terms), proved
# over the C05 contracts of the real EoReader methods (lemmas.reader_algebra), and evaluated on the real
# EoReader (checks.extras.reader_algebra).  Observations of a state: ch = chunked mode, pos = position,
# rem = remaining, tot = len(data) - position, csr = len(data) - chunk start.
def RA_STATE(ch, rem, tot, csr):
    """remaining is never negative, never more than what lies beyond the position, and all of it outside
    chunked mode; the chunk start is never beyond the position"""
    return 0 <= rem and rem <= tot and tot <= csr and (ch or rem == tot)


def RA_SKIP(n, ch, pos, rem, tot, csr, ch2, pos2, rem2, tot2, csr2):
    """a read of n >= 0 bytes consumes k = min(n, remaining)"""
    k = n if n < rem else rem
    return ch2 == ch and pos2 == pos + k and rem2 == rem - k and tot2 == tot - k and csr2 == csr


def RA_SETCH(b, ch, pos, rem, tot, csr, ch2, pos2, rem2, tot2, csr2):
    """setting the mode keeps the position and the chunk start; setting the mode it already has
    keeps everything"""
    return (ch2 == b and pos2 == pos and tot2 == tot and csr2 == csr and 0 <= rem2 and rem2 <= tot2
            and (b or rem2 == tot2) and (ch != b or rem2 == rem))


def RA_NEXT(ch, pos, rem, tot, csr, ch2, pos2, rem2, tot2, csr2):
    """next_chunk keeps the mode and lands ON the new chunk start.  The position may move BACKWARDS
    (mode switched on after reading past a break), so progress is on the chunk start: it strictly
    advances while any data lies beyond it"""
    return (ch2 == ch and 0 <= rem2 and rem2 <= tot2 and tot2 == csr2 and 0 <= csr2
            and (csr2 < csr if csr > 0 else csr2 == csr))


# ---- the writer algebra of E2 (pyvc.gen.GenExec.writer_call): when the writer refuses a value.  One text:
# evaluated symbolically by writer_call, proved over the C09 contracts in lemmas.writer_algebra
def WA_INT_RAISES(width, v):
    """add_byte (width 0) / add_char / add_short / add_three / add_int raise ValueError exactly then (v >= 0)"""
    if width == 0:
        return v > 0xFF
    if width == 1:
        return v >= 253
    if width == 2:
        return v >= 64009
    if width == 3:
        return v >= 16194277
    return v >= 4097152081


def WA_FIXED_RAISES(n, length, padded):
    """add_fixed_string / add_fixed_encoded_string of a string of n characters raise ValueError exactly then"""
    return (padded and length < n) or (not padded and n != length)
