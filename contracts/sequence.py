from pyvc.api import contract, class_contract

SS = "eolib.packet.sequence_start."


@class_contract("eolib.packet.sequence_start.SequenceStart")
class SequenceStart:
    @staticmethod
    def native_generate(rng, nat):
        """bounded stand-in / replay side only: a start of one of the repo's kinds, built through the real
        constructors, values at the ends of the ranges a peer can announce"""
        from eolib.packet import sequence_start as M
        k = rng.randrange(0, 5)
        if k == 0:
            return M.SequenceStart.zero()
        if k == 1:
            return M.AccountReplySequenceStart.from_value(rng.choice([0, 1, 239, 240, rng.randrange(0, 253)]))
        if k == 2:
            return M.InitSequenceStart.from_init_values(rng.choice([0, 1, 251, 252, rng.randrange(0, 253)]),
                                                        rng.choice([0, 1, 13, 251, 252, rng.randrange(0, 253)]))
        if k == 3:
            return M.PingSequenceStart.from_ping_values(rng.choice([0, 1, 252, 253, 63990, 64000, 64007, 64008,
                                                                    rng.randrange(0, 64009)]),
                                                        rng.choice([0, 1, 251, 252, rng.randrange(0, 253)]))
        return M.SimpleSequenceStart(rng.choice([0, 1, 9, 64000, 64008, rng.randrange(0, 70000)]))

    # `value` is an abstract pure observer of a sequence start (subclasses in the repo: verified)
    abstract_props = dict(value="int")


@class_contract("eolib.packet.sequence_start.SimpleSequenceStart")
class SimpleSequenceStart:
    fields = dict(_value="int")


@class_contract("eolib.packet.sequence_start.AccountReplySequenceStart")
class AccountReplySequenceStart:
    fields = dict(_value="int")


@class_contract("eolib.packet.sequence_start.InitSequenceStart")
class InitSequenceStart:
    fields = dict(_value="int", _seq1="int", _seq2="int")


@class_contract("eolib.packet.sequence_start.PingSequenceStart")
class PingSequenceStart:
    fields = dict(_value="int", _seq1="int", _seq2="int")


@contract("eolib.packet.sequence_start.SequenceStart.zero")
class zero:
    properties = ["C12"]
    sorts = dict(result="eolib.packet.sequence_start.SimpleSequenceStart")

    def ensures(result):
        return [result.value == 0]


@contract("eolib.packet.sequence_start.AccountReplySequenceStart.from_value")
class ar_from_value:
    properties = ["C12"]
    sorts = dict(value="int", result="eolib.packet.sequence_start.AccountReplySequenceStart")

    def ensures(value, result):
        return [result.value == value]


@contract("eolib.packet.sequence_start.AccountReplySequenceStart.generate")
class ar_generate:
    properties = ["C12"]
    sorts = dict(result="eolib.packet.sequence_start.AccountReplySequenceStart")

    def ensures(result):
        return [0 <= result.value, result.value < 240, result.value < 253]


@contract("eolib.packet.sequence_start.InitSequenceStart.from_init_values")
class init_from_values:
    properties = ["C12"]
    sorts = dict(seq1="int", seq2="int", result="eolib.packet.sequence_start.InitSequenceStart")

    def ensures(seq1, seq2, result):
        return [result.value == seq1 * 7 + seq2 - 13, result.seq1 == seq1, result.seq2 == seq2]


@contract("eolib.packet.sequence_start.InitSequenceStart.generate")
class init_generate:
    properties = ["C12"]
    sorts = dict(result="eolib.packet.sequence_start.InitSequenceStart")

    def ensures(result):
        return [
            0 <= result.value, result.value < 1757,
            0 <= result.seq1, result.seq1 <= 252,
            0 <= result.seq2, result.seq2 <= 252,
            result.seq1 * 7 + result.seq2 - 13 == result.value,
        ]


@contract("eolib.packet.sequence_start.PingSequenceStart.from_ping_values")
class ping_from_values:
    properties = ["C12"]
    sorts = dict(seq1="int", seq2="int", result="eolib.packet.sequence_start.PingSequenceStart")

    def ensures(seq1, seq2, result):
        return [result.value == seq1 - seq2, result.seq1 == seq1, result.seq2 == seq2]


@contract("eolib.packet.sequence_start.PingSequenceStart.generate")
class ping_generate:
    properties = ["C12"]
    sorts = dict(result="eolib.packet.sequence_start.PingSequenceStart")

    def ensures(result):
        return [
            0 <= result.value, result.value < 1757,
            0 <= result.seq1, result.seq1 < 64009,
            0 <= result.seq2, result.seq2 <= 252,
            result.seq1 - result.seq2 == result.value,
        ]
