from pyvc.api import contract, class_contract


@class_contract("eolib.packet.packet_sequencer.PacketSequencer")
class PacketSequencer:
    fields = dict(_start="eolib.packet.sequence_start.SequenceStart", _counter="int")

    def invariant(self):
        return [0 <= self._counter, self._counter < 10]

    @staticmethod
    def native_generate(rng, nat):
        """bounded stand-in / replay side only: a sequencer after a short real history"""
        from eolib.packet.packet_sequencer import PacketSequencer as Real
        q = Real(nat.gen("eolib.packet.sequence_start.SequenceStart", rng))
        for _ in range(rng.randrange(0, 13)):
            if rng.random() < 0.2:
                q.set_sequence_start(nat.gen("eolib.packet.sequence_start.SequenceStart", rng))
            else:
                q.next_sequence()
        return q


@contract("eolib.packet.packet_sequencer.PacketSequencer.__init__")
class init:
    properties = ["C13"]
    sorts = dict(start="eolib.packet.sequence_start.SequenceStart")

    def ensures(self, start):
        return [self._start is start, self._counter == 0]


@contract("eolib.packet.packet_sequencer.PacketSequencer.next_sequence")
class next_sequence:
    properties = ["C13"]
    modifies = ["self._counter"]

    def ensures(self, old_self, result):
        return [
            result == old_self._start.value + old_self._counter,
            self._counter == (old_self._counter + 1) % 10,
        ]


@contract("eolib.packet.packet_sequencer.PacketSequencer.set_sequence_start")
class set_sequence_start:
    properties = ["C13"]
    sorts = dict(start="eolib.packet.sequence_start.SequenceStart")
    modifies = ["self._start"]

    def ensures(self, start):
        return [self._start is start]
