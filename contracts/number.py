from pyvc.api import contract
from contracts.spec import LIM, DEC, ENCB


@contract("eolib.data.number_encoding_utils.encode_number")
class encode_number:
    properties = ["C07", "C04", "C06", "C09"]
    sorts = dict(number="int", result="bytes")

    def requires(number):
        return [0 <= number, number < LIM(4)]

    def ensures(number, result):
        return [
            len(result) == 4,
            all(result[k] != 0x00 and result[k] != 0xFF for k in range(4)),
            all(1 <= result[k] and result[k] <= 0xFE for k in range(4)),
            DEC(result) == number,
            all((not number < LIM(k)) or (DEC(result[:k]) == number and all(result[j] == 0xFE for j in range(k, 4)))
                for k in range(1, 5)),
            all(result[j] == ENCB(number, j) for j in range(4)),
        ]


@contract("eolib.data.number_encoding_utils.decode_number")
class decode_number:
    properties = ["C07", "C04", "C05", "C03"]
    sorts = dict(encoded_number="bytes", result="int")
    unroll = {0: 4}

    def ensures(encoded_number, result):
        return [result == DEC(encoded_number)]
