from pyvc.api import contract, class_contract
from contracts.spec import ENCB, CP_E, SANB, T, flipAt, LIM

INLINE = ["eolib.data.eo_writer.EoWriter._encode_ansi"]


@class_contract("eolib.data.eo_writer.EoWriter")
class EoWriter:
    fields = dict(data="bytearray", _string_sanitization_mode="bool")

    def native_generate(rng, nat):
        from eolib.data.eo_writer import EoWriter as Real
        w = Real()
        for _ in range(rng.randrange(0, 4)):
            op = rng.randrange(0, 4)
            if op == 0:
                w.add_byte(rng.randrange(0, 256))
            elif op == 1:
                w.add_short(rng.randrange(0, 64009))
            elif op == 2:
                w.add_string(nat.gen("str", rng, 4))
            else:
                w.string_sanitization_mode = rng.random() < 0.5
        w.string_sanitization_mode = rng.random() < 0.5
        return w


@contract("eolib.data.eo_writer.EoWriter.__init__")
class init:
    properties = ["C09", "C04"]

    def ensures(self):
        return [len(self.data) == 0, not self._string_sanitization_mode]


@contract("eolib.data.eo_writer.EoWriter._check_number_size")
class _check_number_size:
    properties = ["C09"]
    sorts = dict(number="int", max_value="int")

    def raises(number, max_value):
        return {ValueError: number > max_value}


@contract("eolib.data.eo_writer.EoWriter._check_string_length")
class _check_string_length:
    properties = ["C09"]
    sorts = dict(string="str", length="int", padded="bool")

    def raises(string, length, padded):
        return {ValueError: (padded and length < len(string)) or (not padded and len(string) != length)}


@contract("eolib.data.eo_writer.EoWriter._add_bytes_with_length")
class _add_bytes_with_length:
    properties = ["C09"]
    sorts = dict(bytes="bytes", bytes_length="int")
    modifies = ["self.data"]

    def requires(bytes, bytes_length):
        return [0 <= bytes_length, bytes_length <= len(bytes)]

    def ensures(self, old_self, bytes, bytes_length):
        return [
            len(self.data) == len(old_self.data) + bytes_length,
            all(self.data[k] == old_self.data[k] for k in range(len(old_self.data))),
            all(self.data[k] == bytes[k - len(old_self.data)]
                for k in range(len(old_self.data), len(old_self.data) + bytes_length)),
        ]


@contract("eolib.data.eo_writer.EoWriter._sanitize_string")
class _sanitize_string:
    properties = ["C09"]
    sorts = dict(bytes="bytearray")
    modifies = ["bytes"]

    def ensures(self, bytes, old_bytes):
        return [
            len(bytes) == len(old_bytes),
            all(bytes[k] == SANB(old_bytes[k], self._string_sanitization_mode) for k in range(len(old_bytes))),
        ]

    def inv_0(self, bytes, old_bytes, i):
        return [
            self._string_sanitization_mode,
            len(bytes) == len(old_bytes),
            all(bytes[k] == SANB(old_bytes[k], True) for k in range(0, i)),
            all(bytes[k] == old_bytes[k] for k in range(i, len(old_bytes))),
        ]


@contract("eolib.data.eo_writer.EoWriter._add_padding")
class _add_padding:
    properties = ["C09"]
    sorts = dict(bytes="bytearray", length="int", result="bytearray")

    def requires(bytes, length):
        return [len(bytes) <= length]

    def ensures(bytes, length, result):
        return [
            len(result) == length,
            all(result[k] == bytes[k] for k in range(len(bytes))),
            all(result[k] == 0xFF for k in range(len(bytes), length)),
        ]


@contract("eolib.data.eo_writer.EoWriter.add_byte")
class add_byte:
    properties = ["C09", "C04"]
    sorts = dict(value="int")
    modifies = ["self.data"]

    def requires(value):
        return [value >= 0]

    def raises(value):
        return {ValueError: value > 0xFF}

    def ensures(self, old_self, value):
        return [
            len(self.data) == len(old_self.data) + 1,
            all(self.data[k] == old_self.data[k] for k in range(len(old_self.data))),
            self.data[len(old_self.data)] == value,
        ]


@contract("eolib.data.eo_writer.EoWriter.add_bytes")
class add_bytes:
    properties = ["C09", "C04"]
    sorts = dict(bytes="bytes")
    modifies = ["self.data"]

    def ensures(self, old_self, bytes):
        return [
            len(self.data) == len(old_self.data) + len(bytes),
            all(self.data[k] == old_self.data[k] for k in range(len(old_self.data))),
            all(self.data[k] == bytes[k - len(old_self.data)]
                for k in range(len(old_self.data), len(old_self.data) + len(bytes))),
        ]


@contract("eolib.data.eo_writer.EoWriter.add_char")
class add_char:
    properties = ["C09", "C04", "C06"]
    sorts = dict(number="int")
    modifies = ["self.data"]

    def requires(number):
        return [number >= 0]

    def raises(number):
        return {ValueError: number >= LIM(1)}

    def ensures(self, old_self, number):
        return [
            len(self.data) == len(old_self.data) + 1,
            all(self.data[k] == old_self.data[k] for k in range(len(old_self.data))),
            all(self.data[len(old_self.data) + j] == ENCB(number, j) for j in range(1)),
        ]


@contract("eolib.data.eo_writer.EoWriter.add_short")
class add_short:
    properties = ["C09", "C04", "C06"]
    sorts = dict(number="int")
    modifies = ["self.data"]

    def requires(number):
        return [number >= 0]

    def raises(number):
        return {ValueError: number >= LIM(2)}

    def ensures(self, old_self, number):
        return [
            len(self.data) == len(old_self.data) + 2,
            all(self.data[k] == old_self.data[k] for k in range(len(old_self.data))),
            all(self.data[len(old_self.data) + j] == ENCB(number, j) for j in range(2)),
        ]


@contract("eolib.data.eo_writer.EoWriter.add_three")
class add_three:
    properties = ["C09", "C04", "C06"]
    sorts = dict(number="int")
    modifies = ["self.data"]

    def requires(number):
        return [number >= 0]

    def raises(number):
        return {ValueError: number >= LIM(3)}

    def ensures(self, old_self, number):
        return [
            len(self.data) == len(old_self.data) + 3,
            all(self.data[k] == old_self.data[k] for k in range(len(old_self.data))),
            all(self.data[len(old_self.data) + j] == ENCB(number, j) for j in range(3)),
        ]


@contract("eolib.data.eo_writer.EoWriter.add_int")
class add_int:
    properties = ["C09", "C04", "C06"]
    sorts = dict(number="int")
    modifies = ["self.data"]

    def requires(number):
        return [number >= 0]

    def raises(number):
        return {ValueError: number >= LIM(4)}

    def ensures(self, old_self, number):
        return [
            len(self.data) == len(old_self.data) + 4,
            all(self.data[k] == old_self.data[k] for k in range(len(old_self.data))),
            all(self.data[len(old_self.data) + j] == ENCB(number, j) for j in range(4)),
        ]


@contract("eolib.data.eo_writer.EoWriter.add_string")
class add_string:
    properties = ["C09", "C04", "C06"]
    sorts = dict(string="str")
    modifies = ["self.data"]

    def ensures(self, old_self, string):
        return [
            len(self.data) == len(old_self.data) + len(string),
            all(self.data[k] == old_self.data[k] for k in range(len(old_self.data))),
            all(self.data[k] == SANB(CP_E(ord(string[k - len(old_self.data)])), self._string_sanitization_mode)
                for k in range(len(old_self.data), len(old_self.data) + len(string))),
        ]


@contract("eolib.data.eo_writer.EoWriter.add_fixed_string")
class add_fixed_string:
    properties = ["C09", "C04"]
    sorts = dict(string="str", length="int", padded="bool")
    modifies = ["self.data"]

    def raises(string, length, padded):
        return {ValueError: (padded and length < len(string)) or (not padded and len(string) != length)}

    def ensures(self, old_self, string, length, padded):
        return [
            len(self.data) == len(old_self.data) + length,
            all(self.data[k] == old_self.data[k] for k in range(len(old_self.data))),
            all(self.data[k] == SANB(CP_E(ord(string[k - len(old_self.data)])), self._string_sanitization_mode)
                for k in range(len(old_self.data), len(old_self.data) + len(string))),
            all(self.data[k] == 0xFF for k in range(len(old_self.data) + len(string), len(old_self.data) + length)),
        ]


@contract("eolib.data.eo_writer.EoWriter.add_encoded_string")
class add_encoded_string:
    properties = ["C09", "C04"]
    sorts = dict(string="str")
    modifies = ["self.data"]

    def ensures(self, old_self, string):
        return [
            len(self.data) == len(old_self.data) + len(string),
            all(self.data[k] == old_self.data[k] for k in range(len(old_self.data))),
            all(self.data[k]
                == T(SANB(CP_E(ord(string[len(string) - 1 - (k - len(old_self.data))])), self._string_sanitization_mode),
                     flipAt(len(string) - 1 - (k - len(old_self.data)), len(string)))
                for k in range(len(old_self.data), len(old_self.data) + len(string))),
        ]


def PADB(string, san, length, k):
    """k-th byte of the sanitised, padded cp1252 image of `string` (k < length)"""
    if k < len(string):
        return SANB(CP_E(ord(string[k])), san)
    return 0xFF


@contract("eolib.data.eo_writer.EoWriter.add_fixed_encoded_string")
class add_fixed_encoded_string:
    properties = ["C09", "C04"]
    sorts = dict(string="str", length="int", padded="bool")
    modifies = ["self.data"]

    def raises(string, length, padded):
        return {ValueError: (padded and length < len(string)) or (not padded and len(string) != length)}

    def ensures(self, old_self, string, length, padded):
        return [
            len(self.data) == len(old_self.data) + length,
            all(self.data[k] == old_self.data[k] for k in range(len(old_self.data))),
            all(self.data[k]
                == T(PADB(string, self._string_sanitization_mode, length, length - 1 - (k - len(old_self.data))),
                     flipAt(length - 1 - (k - len(old_self.data)), length))
                for k in range(len(old_self.data), len(old_self.data) + length)),
        ]


@contract("eolib.data.eo_writer.EoWriter.string_sanitization_mode.setter")
class set_san:
    properties = ["C09", "C15"]
    sorts = dict(string_sanitization_mode="bool")
    modifies = ["self._string_sanitization_mode"]

    def ensures(self, string_sanitization_mode):
        return [self._string_sanitization_mode == string_sanitization_mode]


@contract("eolib.data.eo_writer.EoWriter.to_bytearray")
class to_bytearray:
    properties = ["C09", "C04"]
    sorts = dict(result="bytearray")

    def ensures(self, result):
        return [
            result is not self.data,
            len(result) == len(self.data),
            all(result[k] == self.data[k] for k in range(len(self.data))),
        ]


@contract("eolib.data.eo_writer.EoWriter.__len__")
class len_:
    properties = ["C09"]
    sorts = dict(result="int")

    def ensures(self, result):
        return [result == len(self.data)]
