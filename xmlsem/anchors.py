"""Hand-computed byte vectors: a sanity anchor for xmlsem.concrete (the specification the E2
checks trust).  Worked out by hand from the protocol documentation:
 EO ints: little-endian base-253 digits, each + 1; digits beyond the number's width are 0xFE.
   300 = 47 + 1*253 -> 30 02;  253 -> 01 02;  64009 -> 01 01 02;  0 -> 01.
 strings: windows-1252; 0xFF is break / delimiter / padding; encoded strings: bytes inverted then reversed."""
from types import SimpleNamespace as NS

from . import ir as X
from . import concrete as C

SPEC = """<protocol>
<enum name="E" type="char"><value name="A">0</value><value name="B">1</value></enum>
<struct name="Coords"><field name="x" type="char"/><field name="y" type="char"/></struct>
<struct name="Ints"><field name="b" type="byte"/><field name="c" type="char"/><field name="s" type="short"/><field name="t" type="three"/><field name="i" type="int"/></struct>
<struct name="Chunks"><chunked><field name="name" type="string"/><break/><field name="n" type="char"/></chunked></struct>
<struct name="LenOff"><length name="n" type="char" offset="1"/><field name="s" type="string" length="n"/></struct>
<struct name="Padded"><field name="s" type="string" length="4" padded="true"/><field name="k" type="char"/></struct>
<struct name="Enc"><field name="s" type="encoded_string"/></struct>
<struct name="DelT"><chunked><array name="a" type="string" delimited="true"/></chunked></struct>
<struct name="DelN"><chunked><length name="n" type="char"/><array name="a" type="string" length="n" delimited="true" trailing-delimiter="false"/><field name="z" type="char"/></chunked></struct>
<struct name="Opt"><field name="a" type="char"/><field name="b" type="char" optional="true"/><field name="c" type="string" optional="true"/></struct>
<struct name="Sw"><field name="k" type="E"/><switch field="k"><case value="A"><field name="x" type="short"/></case><case value="7"><field name="y" type="char"/></case><case default="true"><field name="z" type="three"/></case></switch></struct>
<struct name="Misc"><field name="f" type="bool:short"/><field type="char">7</field><field name="e" type="E:short"/></struct>
<struct name="Dum"><dummy type="short">5</dummy></struct>
<struct name="Arr"><array name="pts" type="Coords"/></struct>
</protocol>"""


def obj(**kw):
    return NS(**{"_" + k: v for k, v in kw.items()})


def check():
    spec = X.load_strings({"": SPEC})
    S = spec.structs
    problems = []

    def w(name, value, want, san=False):
        got = C.wire(spec, S[name], value, san)
        if got != bytes(want):
            problems.append(f"WIRE {name}: got {list(got)}, hand-computed {list(want)}")

    def p(name, data, want, chunked=False):
        got, st = C.parse(spec, S[name], bytes(data), chunked)
        got = {k: v for k, v in got.items() if k not in ("__class__",)}
        if got != want:
            problems.append(f"PARSE {name} {list(data)}: got {got}, hand-computed {want}")

    w("Coords", obj(x=1, y=10), [0x02, 0x0B])
    w("Ints", obj(b=255, c=252, s=300, t=64009, i=253), [0xFF, 0xFD, 0x30, 0x02, 0x01, 0x01, 0x02, 0x01, 0x02, 0xFE, 0xFE])
    w("Ints", obj(b=0, c=0, s=0, t=0, i=0), [0x00, 0x01, 0x01, 0xFE, 0x01, 0xFE, 0xFE, 0x01, 0xFE, 0xFE, 0xFE])
    w("Chunks", obj(name="aÿb", n=2), [0x61, 0x79, 0x62, 0xFF, 0x03])          # y-diaeresis sanitised inside chunked
    w("LenOff", obj(s="abc"), [0x03, 0x61, 0x62, 0x63])                              # length 3 minus offset 1 = 2 -> 03
    w("Padded", obj(s="ab", k=1), [0x61, 0x62, 0xFF, 0xFF, 0x02])
    w("Padded", obj(s="ÿ€Ā", k=0), [0xFF, 0x80, 0x3F, 0xFF, 0x01])   # not sanitised outside chunked; unencodable -> '?'
    w("Enc", obj(s="ab"), [0x6B, 0x3E])          # 'a'=61 -> 9F-61=3E ; 'b'=62 (flip, >=50) -> 9F-62+2E=6B ; reversed
    w("Enc", obj(s="a"), [0x6C])                 # odd length: first position flips: 61>=50 -> 9F-61+2E = 6C
    w("DelT", obj(a=["a", "bc"]), [0x61, 0xFF, 0x62, 0x63, 0xFF])
    w("DelN", obj(a=["a", "b"], z=4), [0x03, 0x61, 0xFF, 0x62, 0x05])
    w("Opt", obj(a=1, b=None, c="x"), [0x02])                                       # once one is absent all later ones are
    w("Opt", obj(a=1, b=2, c="x"), [0x02, 0x03, 0x78])
    w("Sw", obj(k=0, k_data=obj(x=300)), [0x01, 0x30, 0x02])
    w("Sw", obj(k=7, k_data=obj(y=1)), [0x08, 0x02])                                # unrecognised ordinal selects the ordinal case
    w("Sw", obj(k=1, k_data=obj(z=0)), [0x02, 0x01, 0xFE, 0xFE])                    # default
    w("Misc", obj(f=True, e=300), [0x02, 0xFE, 0x08, 0x30, 0x02])
    w("Dum", obj(), [0x06, 0xFE])
    w("Arr", obj(pts=[obj(x=0, y=1), obj(x=2, y=3)]), [0x01, 0x02, 0x03, 0x04])
    # reading rules
    p("Coords", [0x02], {"x": 1, "y": 0, "byte_size": 1})                           # missing data reads as zero
    p("Coords", [0x00, 0xFE], {"x": -1, "y": 0, "byte_size": 2})                    # 0x00 decodes to -1, 0xFE to 0
    p("Ints", [0xFF, 0xFD, 0x30, 0x02, 0x01, 0x01, 0x02, 0x01, 0x02, 0xFE, 0xFE],
      {"b": 255, "c": 252, "s": 300, "t": 64009, "i": 253, "byte_size": 11})
    p("Chunks", [0x61, 0x62, 0xFF, 0x03, 0x09], {"name": "ab", "n": 2, "byte_size": 4})
    p("Chunks", [0x61], {"name": "a", "n": 0, "byte_size": 1})
    p("LenOff", [0x03, 0x61, 0x62, 0x63, 0x64], {"s": "abc", "byte_size": 4})
    p("Padded", [0x61, 0xFF, 0x62, 0xFF, 0x02], {"s": "a", "k": 1, "byte_size": 5})   # cut at the first 0xFF
    p("Enc", [0x6B, 0x3E], {"s": "ab", "byte_size": 2})
    p("DelT", [0x61, 0xFF, 0xFF, 0x62], {"a": ["a"], "byte_size": 2}, chunked=False)   # empty chunk: remaining == 0 stops the loop
    p("DelN", [0x03, 0x61, 0xFF, 0x62, 0x05], {"a": ["a", "b\x05"], "z": 0, "byte_size": 5})   # no delimiter after the last: it takes the rest of the chunk
    p("Opt", [0x02], {"a": 1, "b": None, "c": None, "byte_size": 1})
    p("Opt", [0x02, 0x03], {"a": 1, "b": 2, "c": None, "byte_size": 2})
    p("Sw", [0x08, 0x02], {"k": 7, "k_data": {"__class__": "Sw.KData7", "y": 1, "byte_size": 1}, "byte_size": 2})
    p("Arr", [0x01, 0x02, 0x03], {"pts": [{"__class__": "Coords", "x": 0, "y": 1, "byte_size": 2}], "byte_size": 2})  # floor(3/2) elements
    try:
        C.parse(spec, S["LenOff"], bytes([0x00]))                                   # 0x00 -> -1, +1 offset -> 0: fine
        C.parse(spec, X.load_strings({"": SPEC.replace('offset="1"', 'offset="-1"')}).structs["LenOff"], bytes([0x01]))
        problems.append("negative fixed-string length did not raise")
    except C.NegativeLength:
        pass
    return problems


if __name__ == "__main__":
    import sys
    pr = check()
    for x in pr:
        print(x)
    sys.exit(1 if pr else 0)
