"""The grammar rules of eo-protocol specifications (C17's catalogue), read independently of the
generator: validate(spec) raises SpecError for an ill-formed specification.  Also the two
domain predicates of C01 / C02: wire_unambiguous and degenerate."""
import keyword

from .ir import (SpecError, INT_WIDTH, resolve_type, flatten_own, all_objects, snake_to_pascal)

BASIC_KINDS = ("int", "bool", "string", "encoded_string")


def is_str(t):
    return t is not None and t.split(":")[0] in ("string", "encoded_string")


class Ctx:
    def __init__(self, chunked=False, optional=False, dummy=False):
        self.chunked = chunked
        self.optional = optional
        self.dummy = dummy
        self.fields = {}        # name -> (tref, is_array)
        self.lengths = {}       # name -> referenced?


def bounded(spec, tref, seen=()):
    if tref.kind in ("int", "bool", "enum"):
        return True
    if tref.kind in ("string", "encoded_string"):
        return tref.length is not None
    if tref.kind == "blob":
        return False
    if tref.kind == "struct":
        if tref.name in seen:
            raise SpecError("recursive struct")
        res = True
        for ins in _flat_all(tref.struct.body):
            if not res:
                res = ins.tag == "break"
                continue
            if ins.tag == "field":
                res = bounded(spec, resolve_type(spec, ins.type, ins.length if is_str(ins.type) else None), seen + (tref.name,))
            elif ins.tag == "array":
                res = bounded(spec, resolve_type(spec, ins.type), seen + (tref.name,)) and ins.length is not None
            elif ins.tag == "dummy":
                res = bounded(spec, resolve_type(spec, ins.type), seen + (tref.name,))
        return res
    return False


def _flat_all(body):
    for ins in body:
        yield ins
        if ins.tag == "chunked":
            yield from _flat_all(ins.body)
        elif ins.tag == "switch":
            for c in ins.cases:
                yield from _flat_all(c.body)


def check_hardcoded(tref, ins):
    v = ins.value
    if tref.kind not in BASIC_KINDS:
        raise SpecError("hard-coded value on a non-basic type")
    if tref.kind == "int" and not (v.isdigit()):
        raise SpecError("hard-coded value of the wrong type (integer expected)")
    if tref.kind == "bool" and v not in ("true", "false"):
        raise SpecError("hard-coded value of the wrong type (bool expected)")
    if tref.kind in ("string", "encoded_string") and ins.length is not None and ins.length.isdigit():
        # the literal must have exactly the declared length, padded or not (rule "hardcoded values of the wrong
        # ... length"; a shorter literal in a padded field is refused by the generator as well)
        if len(v) != int(ins.length):
            raise SpecError("hard-coded string of the wrong length")


def check_length_attr(ctx, ins):
    if ins.length is None:
        return
    if ins.length.isdigit():
        return
    if ins.length not in ctx.lengths:
        raise SpecError(f"length attribute {ins.length!r} is neither a number nor a length field in scope")
    if ctx.lengths[ins.length]:
        raise SpecError(f"length field {ins.length!r} referenced twice")
    ctx.lengths[ins.length] = True


def check_body(spec, body, ctx, owner):
    for ins in body:
        if ctx.dummy:
            raise SpecError("instruction after <dummy>")
        if ins.tag == "field":
            if ins.type is None:
                raise SpecError("field without type")
            tref = resolve_type(spec, ins.type, ins.length if ins.length is not None else None) \
                if not is_str(ins.type) else resolve_type(spec, ins.type, ins.length)
            if ctx.optional and not ins.optional:
                raise SpecError("required field after an optional one")
            if ins.name is None:
                if ins.value is None:
                    raise SpecError("unnamed field without a value")
                if ins.optional:
                    raise SpecError("unnamed optional field")
            if ins.value is not None:
                check_hardcoded(tref, ins)
            if ins.name is not None:
                if ins.name in ctx.fields:
                    raise SpecError(f"field {ins.name} redefined")
            check_length_attr(ctx, ins)
            if ins.name is not None:
                ctx.fields[ins.name] = (tref, False)
            if ins.optional:
                ctx.optional = True
        elif ins.tag == "array":
            if ins.name is None or ins.type is None:
                raise SpecError("array without name / type")
            tref = resolve_type(spec, ins.type)
            if ctx.optional and not ins.optional:
                raise SpecError("required array after an optional field")
            if ins.delimited and not ctx.chunked:
                raise SpecError("delimited array outside a chunked section")
            if not ins.delimited and not bounded(spec, tref):
                raise SpecError("unbounded element type in a non-delimited array")
            if ins.name in ctx.fields:
                raise SpecError(f"field {ins.name} redefined")
            check_length_attr(ctx, ins)
            ctx.fields[ins.name] = (tref, True)
            if ins.optional:
                ctx.optional = True
        elif ins.tag == "length":
            if ins.name is None or ins.type is None:
                raise SpecError("length without name / type")
            tref = resolve_type(spec, ins.type)
            if tref.kind != "int":
                raise SpecError("length field of a non-numeric type")
            if ctx.optional and not ins.optional:
                raise SpecError("required length after an optional field")
            if ins.name in ctx.fields:
                raise SpecError(f"field {ins.name} redefined")
            ctx.fields[ins.name] = (tref, False)
            ctx.lengths[ins.name] = False
            if ins.optional:
                ctx.optional = True
        elif ins.tag == "dummy":
            tref = resolve_type(spec, ins.type)
            if ins.value is None:
                raise SpecError("dummy without a value")
            check_hardcoded(tref, ins)
            ctx.dummy = True
        elif ins.tag == "break":
            if not ctx.chunked:
                raise SpecError("<break> outside a chunked section")
            ctx.optional = False
            ctx.dummy = False
        elif ins.tag == "chunked":
            was = ctx.chunked
            ctx.chunked = True
            check_body(spec, ins.body, ctx, owner)
            ctx.chunked = was
        elif ins.tag == "switch":
            if ins.field not in ctx.fields:
                raise SpecError(f"switch on unknown field {ins.field}")
            tref, is_arr = ctx.fields[ins.field]
            if is_arr:
                raise SpecError("switch on an array field")
            if tref.kind not in ("int", "enum"):
                raise SpecError("switch on a field that is neither numeric nor an enum")
            opt, dum = ctx.optional, ctx.dummy
            first = True
            for c in ins.cases:
                if c.default:
                    if first:
                        raise SpecError("lone / leading default case")
                else:
                    if c.value is None:
                        raise SpecError("case without value")
                    if tref.kind == "int":
                        if not c.value.isdigit():
                            raise SpecError("case value is not an integer")
                    else:
                        try:
                            o = int(c.value)
                        except ValueError:
                            o = None
                        if o is not None:
                            if tref.enum.by_ordinal(o) is not None:
                                raise SpecError("enum case by ordinal although the ordinal has a name")
                        elif tref.enum.by_name(c.value) is None:
                            raise SpecError("case value is not a member of the enum")
                first = False
                cctx = Ctx(ctx.chunked, ctx.optional, ctx.dummy)
                check_body(spec, c.body, cctx, owner)
                opt = opt or cctx.optional
                dum = dum or cctx.dummy
            ctx.optional, ctx.dummy = opt, dum
        else:
            raise SpecError(f"unknown instruction {ins.tag}")


def validate(spec):
    for e in spec.enums.values():
        if e.under is None or e.under == e.name or e.under not in INT_WIDTH:
            raise SpecError(f"enum {e.name}: underlying type is not numeric")
        ords, names = set(), set()
        for (n, o, pn) in e.values:
            if o in ords:
                raise SpecError(f"enum {e.name}: ordinal {o} redefined")
            if pn in names:
                raise SpecError(f"enum {e.name}: value name {n} redefined")
            ords.add(o)
            names.add(pn)
    for s in spec.structs.values():
        check_body(spec, s.body, Ctx(), s)
    if spec.packets:
        fam = spec.enums.get("PacketFamily")
        act = spec.enums.get("PacketAction")
        if fam is None or act is None:
            raise SpecError("PacketFamily / PacketAction enum missing")
        for p in spec.packets:
            if fam.by_name(p.family) is None:
                raise SpecError(f"unknown packet family {p.family}")
            if act.by_name(p.action) is None:
                raise SpecError(f"unknown packet action {p.action}")
            check_body(spec, p.body, Ctx(), p)
    return True


def well_formed(spec):
    try:
        validate(spec)
        return True, None
    except SpecError as e:
        return False, str(e)


RESERVED_MEMBERS = {"byte_size", "serialize", "deserialize", "family", "action", "write", "data", "writer", "reader",
                    "result", "i", "self", "old_writer_length", "old_string_sanitization_mode",
                    "old_chunked_reading_mode", "reader_start_position", "reached_missing_optional"}


def degenerate(spec):
    """C02's exclusions: specs the generator accepts but whose meaning the protocol does not fix."""
    from .concrete import fixed_size
    for obj in all_objects(spec):
        seen_switch = set()
        names = []
        lens = {}
        after_own_chunked = False
        for ins in flatten_own(obj.body):
            if ins.tag in ("field", "array", "length") and ins.name is not None:
                names.append(ins.name)
                if keyword.iskeyword(ins.name) or ins.name in RESERVED_MEMBERS or ins.name.endswith("_data") \
                        or ins.name.endswith("_length") or ins.name.startswith("_"):
                    return "identifier collides with a keyword or a generated name"
            if ins.tag == "length":
                lens[ins.name] = False
            if ins.tag in ("field", "array") and ins.length in lens:
                lens[ins.length] = True
            if ins.tag == "array":
                z = fixed_size(spec, resolve_type(spec, ins.type))
                if z == 0:
                    return "zero-size array element"
            if ins.tag == "switch":
                if ins.field in seen_switch:
                    return "two switches on one field"
                seen_switch.add(ins.field)
                vals = [c.value for c in ins.cases if not c.default]
                if len(vals) != len(set(vals)) or sum(1 for c in ins.cases if c.default) > 1:
                    return "duplicate or multiple-default cases"
        if any(not r for r in lens.values()):
            return "length field that nothing references"
    return None


def wire_unambiguous(spec):
    """C01's domain (conservative): every unbounded item is last in its chunk / object; no
    0xFF-capable data before a chunked section of the same object; dummy only alone; optional last."""
    from .concrete import fixed_size

    def unbounded_item(ins):
        if ins.tag == "field":
            t = resolve_type(spec, ins.type, ins.length if is_str(ins.type) else None)
            if t.kind in ("string", "encoded_string"):
                return ins.length is None
            if t.kind == "blob":
                return True
            if t.kind == "struct":
                return not bounded(spec, t)
            return False
        if ins.tag == "array":
            return ins.length is None
        return False

    def ff_capable(ins):
        if ins.tag in ("field",):
            t = resolve_type(spec, ins.type, ins.length if is_str(ins.type) else None)
            if t.kind in ("int", "enum", "bool"):
                return t.under == "byte"
            return True          # strings outside chunked are unsanitised; blobs; structs (conservative)
        if ins.tag == "array":
            t = resolve_type(spec, ins.type)
            return not (t.kind in ("int", "enum", "bool") and t.under != "byte")
        if ins.tag == "length":
            return False
        return ins.tag == "dummy"

    for obj in all_objects(spec):
        body = list(flatten_own(obj.body))
        has_dummy = any(i.tag == "dummy" for i in body)
        if has_dummy and len([i for i in body if i.tag != "chunked"]) > 1:
            return False
        pending_unbounded = False
        seen_ff = False
        in_chunked = False

        def walk(b, chunked):
            nonlocal pending_unbounded, seen_ff
            for idx, ins in enumerate(b):
                if ins.tag == "chunked":
                    if seen_ff:
                        return False
                    if pending_unbounded:
                        return False
                    if not walk(ins.body, True):
                        return False
                    continue
                if ins.tag == "break":
                    pending_unbounded = False
                    continue
                if pending_unbounded:
                    return False
                if ins.tag == "switch":
                    # case bodies are separate objects; anything after a switch must follow bounded cases
                    for c in ins.cases:
                        for ci in c.body:
                            if unbounded_item(ci) or ci.tag in ("switch", "chunked"):
                                pending_unbounded = True
                    continue
                if getattr(ins, "optional", False):
                    pending_unbounded = True      # optional fields last
                    continue
                if unbounded_item(ins):
                    pending_unbounded = True
                if not chunked and ff_capable(ins):
                    seen_ff = True
            return True
        if not walk(obj.body, False):
            return False
    return True


def _has_break(spec, struct, depth=0):
    if depth > 6:
        return True
    for ins in flatten_own(struct.body):
        if ins.tag == "break":
            return True
        if ins.tag in ("field", "array") and ins.type is not None:
            t = resolve_type(spec, ins.type, ins.length if ins.tag == "field" and is_str(ins.type) else None)
            if t.kind == "struct" and _has_break(spec, t.struct, depth + 1):
                return True
    return False


# ---------------------------------------------------------------- C01 domain, per class
def c01_domain(spec, decl, ctx_chunked, top=True, _depth=0):
    """(in_domain, ends_unbounded, may_contain_0xFF) for one object entered in the given context.
    Conservative reading of 'wire-unambiguous': unbounded items only at the end of a segment or
    chunk; no 0xFF-capable data ahead of a chunked section nor inside one; dummy only in
    otherwise-empty bodies; optional fields last."""
    from .concrete import fixed_size
    if _depth > 6:
        return False, True, True
    body = decl.body
    insns = [i for i in body]
    flat = list(flatten_own(body))
    if any(i.tag == "dummy" for i in flat) and len([i for i in flat if i.tag != "chunked"]) > 1:
        return False, False, False
    state = {"tail": False, "ff_seen": False, "ff_any": False, "ok": True}

    def item(ins, chunked):
        """(ok, unbounded, ff) of one field-like instruction"""
        if ins.tag == "length":
            t = resolve_type(spec, ins.type)
            return True, bool(ins.optional), t.under == "byte"
        if ins.tag == "dummy":
            t = resolve_type(spec, ins.type)
            return True, False, t.kind != "int" or t.under == "byte"
        if ins.tag == "field":
            t = resolve_type(spec, ins.type, ins.length if is_str(ins.type) else None)
            if ins.value is not None:
                if t.kind in ("string", "encoded_string"):
                    lossy = any(ord(c) > 0x7D or ord(c) < 0x20 for c in ins.value)
                    unb = ins.length is None
                    return not lossy, unb, bool(ins.padded)
                return True, False, t.under == "byte"
            unb = bool(ins.optional)
            if t.kind in ("int", "enum"):
                return True, unb, t.under == "byte"
            if t.kind == "bool":
                return True, unb, False
            if t.kind in ("string", "encoded_string"):
                if ins.length is None:
                    return True, True, not chunked
                if ins.length.isdigit():
                    return True, unb, bool(ins.padded) or not chunked
                return True, unb, bool(ins.padded) or not chunked
            if t.kind == "blob":
                return True, True, True
            if t.kind == "struct":
                ok, u, ff = c01_domain(spec, t.struct, chunked, top=False, _depth=_depth + 1)
                return ok, u or unb, ff
        if ins.tag == "array":
            t = resolve_type(spec, ins.type)
            if t.kind == "struct":
                ok, ue, ffe = c01_domain(spec, t.struct, chunked, top=False, _depth=_depth + 1)
            elif t.kind in ("string", "encoded_string"):
                ok, ue, ffe = True, True, not chunked
            elif t.kind == "blob":
                ok, ue, ffe = True, True, True
            else:
                ok, ue, ffe = True, False, t.under == "byte"
            if not ok:
                return False, True, True
            if ins.delimited and ffe:
                return False, True, True
            if ins.length is None:
                if not ins.delimited and ue:
                    return False, True, True
                if not ins.delimited and t.kind == "struct" and _has_break(spec, t.struct):
                    # a read-to-end loop tests `remaining` of the CURRENT chunk: an element that starts with
                    # an empty chunk (empty string then <break>) is indistinguishable from the end of the array
                    return False, True, True
                return True, True, ffe
            unb = bool(ins.optional)
            if ue and not (ins.delimited and ins.trailing):
                unb = True
                if not ins.delimited:
                    return False, True, True
            return True, unb, ffe
        return True, False, False

    def walk(b, chunked):
        for ins in b:
            if not state["ok"]:
                return
            if ins.tag == "break":
                state["tail"] = False
                continue
            if state["tail"]:
                state["ok"] = False
                return
            if ins.tag == "chunked":
                if chunked:
                    walk(ins.body, True)
                    continue
                if state["ff_seen"] or not top:
                    state["ok"] = False
                    return
                walk(ins.body, True)
                # items after an own chunked section are read outside chunked mode
                continue
            if ins.tag == "switch":
                unb = False
                for c in ins.cases:
                    if not c.body:
                        continue
                    from .ir import Obj
                    ok, u, ff = c01_domain(spec, Obj("case", "case", c.body, decl.path), chunked, top=False, _depth=_depth + 1)
                    if not ok:
                        state["ok"] = False
                        return
                    unb = unb or u
                    if ff:
                        if chunked:
                            state["ok"] = False
                            return
                        state["ff_seen"] = True
                        state["ff_any"] = True
                state["tail"] = unb
                continue
            ok, unb, ff = item(ins, chunked)
            if not ok:
                state["ok"] = False
                return
            if ff:
                if chunked:
                    state["ok"] = False
                    return
                state["ff_seen"] = True
                state["ff_any"] = True
            if unb:
                state["tail"] = True
    walk(body, ctx_chunked)
    return state["ok"], state["tail"], state["ff_any"]


def arrays_without_progress(spec, decl, ctx_chunked=False):
    """the call sites of known finding C03/read-to-end-array-of-chunk-first-element: read-to-end arrays
    (no length, not delimited) of `decl` that sit OUTSIDE a chunked section and whose element is a struct
    that is not fixed-size, starts with an own chunked section and has no own <break>.  Entered in
    unchunked mode such an element can consume nothing while data remains (its chunked section ends at a
    break byte the enclosing loop does not see), so `while reader.remaining > 0` never ends"""
    from .concrete import fixed_size
    out = []

    def chunk_first(st):
        body = list(flatten_own(st.body))
        return bool(body) and body[0].tag == "chunked" and not any(i.tag == "break" for i in body)

    def run(body, ch):
        for ins in body:
            if ins.tag == "chunked":
                run(ins.body, True)
            elif ins.tag == "array" and ins.length is None and not ins.delimited and not ch:
                t = resolve_type(spec, ins.type)
                if t.kind == "struct" and fixed_size(spec, t) is None and chunk_first(t.struct):
                    out.append({"array": ins.name, "element": ins.type})
    run(decl.body, ctx_chunked)
    return out


def known_shape_sites(spec, top):
    """arrays_without_progress for class `top` and its case-data classes (static context computed as the
    generator's own: a case class inherits the chunked state of its switch)"""
    from .concrete import case_class_name
    decls = {o.name: o for o in all_objects(spec)}
    out = []

    def walk(decl, ctx):
        for a in arrays_without_progress(spec, decl, ctx):
            out.append(dict(a, **{"class": decl.name}))

        def run(body, ch):
            for ins in body:
                if ins.tag == "chunked":
                    run(ins.body, True)
                elif ins.tag == "switch":
                    for c in ins.cases:
                        if c.body:
                            walk(decls[case_class_name(decl.name, ins.field, c)], ch)
        run(decl.body, ctx)
    root = top.split(".")[0]
    if root in decls:
        walk(decls[root], False)
    return [a for a in out if a["class"] == top or a["class"].startswith(top + ".") or top.startswith(a["class"] + ".")]


def optional_length_across_break(decl, length_name=None):
    """call sites of known finding C03/optional-length-across-break: optional <length> fields of `decl` whose
    referencing field or array comes after a <break> (in a later chunk).  When the length is absent (no
    data left in its chunk) the later chunk may still hold data, and the emitted deserializer hands
    None to get_fixed_string / range: TypeError"""
    out = []
    pending = {}            # optional length name -> a break was seen since
    for ins in flatten_own(decl.body):
        if ins.tag == "length" and ins.optional:
            pending[ins.name] = False
        elif ins.tag == "break":
            for k in pending:
                pending[k] = True
        elif ins.tag in ("field", "array") and ins.length in pending and pending[ins.length]:
            out.append({"length": ins.length, "referenced_by": ins.name, "class": decl.name})
    if length_name is not None:
        return [o for o in out if o["length"] == length_name]
    return out
