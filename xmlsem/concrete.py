"""Concrete interpretation of the XML semantics: WIRE (bytes an object must serialise to), VALID
(does the object respect its declaration) and PARSE (the object the reading rules prescribe for
any byte string).  Written from the protocol rules, with its own number / string / chunk
primitives - it shares no code with /repo."""
from .ir import resolve_type, SpecError, snake_to_pascal, INT_WIDTH


# ---------------------------------------------------------------- primitives
def enc_int(v, under):
    if under == "byte":
        return bytes([v])
    k = INT_WIDTH[under]
    out = []
    digits = []
    x = v
    for _ in range(4):
        digits.append(x % 253)
        x //= 253
    width_needed = 1 if v < 253 else 2 if v < 253 ** 2 else 3 if v < 253 ** 3 else 4
    for j in range(k):
        out.append(digits[j] + 1 if j < width_needed else 0xFE)
    return bytes(out)


def dec_int(bs):
    r = 0
    for i, b in enumerate(bs[:4]):
        if b == 0xFE:
            break
        r += (b - 1) * 253 ** i
    return r


def sb(s, san):
    b = bytearray(s.encode("windows-1252", "replace"))
    if san:
        b = bytearray(0x79 if x == 0xFF else x for x in b)
    return bytes(b)


def t_byte(c, flip):
    if c < 0x22 or c > 0x7E:
        return c
    if not flip:
        return 0x9F - c
    return 0x9F - c + 0x2E if c >= 0x50 else 0x9F - c - 0x2E


def es(b):
    n = len(b)
    return bytes(t_byte(b[n - 1 - i], (n + (n - 1 - i)) % 2 == 1) for i in range(n))


def ds(b):
    n = len(b)
    return bytes(t_byte(b[n - 1 - i], (n + i) % 2 == 1) for i in range(n))


def cp_dec(b):
    return bytes(b).decode("windows-1252", "replace")


class Invalid(Exception):
    pass


# ---------------------------------------------------------------- helpers on instructions
def ref_of_length(body_flat, name):
    for ins in body_flat:
        if ins.tag in ("field", "array") and ins.length == name:
            return ins
    return None


def flat(body):
    for ins in body:
        yield ins
        if ins.tag == "chunked":
            yield from flat(ins.body)


def length_fields(body):
    return {ins.name: ins for ins in flat(body) if ins.tag == "length"}


def get(obj, name):
    return getattr(obj, "_" + name)


def case_class_name(owner_name, field, case):
    return owner_name + "." + snake_to_pascal(field) + "Data" + ("Default" if case.default else case.value)


def select_case(spec, ins, value, fields_types):
    """first case whose value equals the switch field's value; else the default; else None"""
    tref = fields_types[ins.field]
    v = int(value)
    for c in ins.cases:
        if c.default:
            continue
        if tref.kind == "enum":
            ev = tref.enum.by_name(c.value)
            want = ev[1] if ev is not None else int(c.value)
        else:
            want = int(c.value)
        if v == want:
            return c
    for c in ins.cases:
        if c.default:
            return c
    return None


def lit_value(tref, text):
    if tref.kind == "int":
        return int(text)
    if tref.kind == "bool":
        return {"true": True, "false": False}[text]
    return text


# ---------------------------------------------------------------- WIRE / VALID
class Writer:
    def __init__(self, spec, san=False):
        self.spec = spec
        self.out = bytearray()
        self.san = san


def wire(spec, objdecl, value, san=False, ctx_chunked=False):
    w = Writer(spec, san)
    _wire_obj(w, objdecl, value, ctx_chunked)
    return bytes(w.out)


def _emit_value(w, tref, v, ins, lenfields, owner_value):
    if tref.kind == "int":
        w.out += enc_int(int(v), tref.under)
    elif tref.kind == "bool":
        w.out += enc_int(1 if v else 0, tref.under)
    elif tref.kind == "enum":
        w.out += enc_int(int(v), tref.under)
    elif tref.kind in ("string", "encoded_string"):
        b = sb(v, w.san)
        if ins.tag == "field" and ins.length is not None and ins.padded:
            L = int(ins.length) if ins.length.isdigit() else len(v)
            b = b + b"\xff" * (L - len(b))
        w.out += es(b) if tref.kind == "encoded_string" else b
    elif tref.kind == "blob":
        w.out += bytes(v)
    elif tref.kind == "struct":
        _wire_obj(w, tref.struct, v, False)


def _wire_obj(w, decl, value, ctx_chunked):
    saved = w.san
    start = len(w.out)
    st = {"missing": False, "chunked": ctx_chunked}
    types = {}
    lf = length_fields(decl.body)
    allflat = list(flat(decl.body))

    def run(body):
        for ins in body:
            if ins.tag == "field":
                tref = resolve_type(w.spec, ins.type, ins.length if ins.type.split(":")[0] in ("string", "encoded_string") else None)
                if ins.name is not None:
                    types[ins.name] = tref
                if ins.value is not None:
                    # a hard-coded value is never None; as an optional field it is still part of the optional tail:
                    # not written once an earlier optional of this chunk was missing
                    if ins.optional and st["missing"]:
                        continue
                    _emit_value(w, tref, lit_value(tref, ins.value), ins, lf, value)
                    continue
                v = get(value, ins.name)
                if ins.optional:
                    st["missing"] = st["missing"] or v is None
                    if st["missing"]:
                        continue
                _emit_value(w, tref, v, ins, lf, value)
            elif ins.tag == "length":
                tref = resolve_type(w.spec, ins.type)
                types[ins.name] = tref
                ref = ref_of_length(allflat, ins.name)
                rv = get(value, ref.name)
                if ins.optional:
                    st["missing"] = st["missing"] or rv is None
                    if st["missing"]:
                        continue
                w.out += enc_int(len(rv) - ins.offset, tref.under)
            elif ins.tag == "array":
                tref = resolve_type(w.spec, ins.type)
                v = get(value, ins.name)
                if ins.optional:
                    st["missing"] = st["missing"] or v is None
                    if st["missing"]:
                        continue
                for i, e in enumerate(v):
                    if ins.delimited and not ins.trailing and i > 0:
                        w.out.append(0xFF)
                    _emit_value(w, tref, e, ins, lf, value)
                    if ins.delimited and ins.trailing:
                        w.out.append(0xFF)
            elif ins.tag == "dummy":
                if len(w.out) == start:
                    tref = resolve_type(w.spec, ins.type)
                    _emit_value(w, tref, lit_value(tref, ins.value), ins, lf, value)
            elif ins.tag == "break":
                w.out.append(0xFF)
                st["missing"] = False
            elif ins.tag == "chunked":
                was = st["chunked"]
                if not was:
                    st["chunked"] = True
                    w.san = True
                run(ins.body)
                if not was:
                    st["chunked"] = False
                    w.san = False
            elif ins.tag == "switch":
                c = select_case(w.spec, ins, get(value, ins.field), types)
                if c is not None and c.body:
                    cd = get(value, ins.field + "_data")
                    from .ir import Obj
                    _wire_obj_case(w, decl, ins, c, cd, st["chunked"])
    run(decl.body)
    w.san = saved


def _wire_obj_case(w, owner, ins, case, cd, ctx_chunked):
    from .ir import Obj
    decl = Obj("case", case_class_name(owner.name, ins.field, case), case.body, owner.path)
    _wire_obj(w, decl, cd, ctx_chunked)


def check_valid(spec, decl, value):
    """raises Invalid with a reason when `value` violates its declaration (C16's list)"""
    types = {}
    allflat = list(flat(decl.body))
    lf = length_fields(decl.body)

    def chk_value(tref, v, ins, what):
        if tref.kind in ("int", "enum"):
            if int(v) < 0 or int(v) >= tref.limit:
                raise Invalid(f"{what}: integer out of range")
        elif tref.kind == "struct":
            check_valid(spec, tref.struct, v)

    def chk_len(ins, v):
        if ins.length is None:
            return
        if ins.length.isdigit():
            L = int(ins.length)
            if ins.tag == "field" and ins.padded:
                if len(v) > L:
                    raise Invalid(f"{ins.name}: longer than padded length")
            elif len(v) != L:
                raise Invalid(f"{ins.name}: length differs from fixed length")
        else:
            lfi = lf[ins.length]
            tref = resolve_type(spec, lfi.type)
            if len(v) > tref.limit - 1 + lfi.offset:
                raise Invalid(f"{ins.name}: exceeds length-field limit")
            if len(v) - lfi.offset < 0:
                raise Invalid(f"{ins.name}: shorter than the length offset")

    def run(body):
        for ins in body:
            if ins.tag == "field":
                tref = resolve_type(spec, ins.type, ins.length if ins.type.split(":")[0] in ("string", "encoded_string") else None)
                if ins.name is not None:
                    types[ins.name] = tref
                if ins.value is not None or ins.name is None:
                    continue
                v = get(value, ins.name)
                if v is None:
                    if not ins.optional:
                        raise Invalid(f"{ins.name} is None")
                    continue
                if tref.kind in ("string", "encoded_string"):
                    chk_len(ins, v)
                chk_value(tref, v, ins, ins.name)
            elif ins.tag == "length":
                types[ins.name] = resolve_type(spec, ins.type)
            elif ins.tag == "array":
                tref = resolve_type(spec, ins.type)
                v = get(value, ins.name)
                if v is None:
                    if not ins.optional:
                        raise Invalid(f"{ins.name} is None")
                    continue
                chk_len(ins, v)
                for e in v:
                    chk_value(tref, e, ins, ins.name + "[]")
            elif ins.tag == "chunked":
                run(ins.body)
            elif ins.tag == "switch":
                sv = get(value, ins.field)
                if sv is None:
                    raise Invalid(f"{ins.field} is None")
                c = select_case(spec, ins, sv, types)
                cd = get(value, ins.field + "_data")
                if c is None or not c.body:
                    if cd is not None:
                        raise Invalid("case data given for a case without data")
                else:
                    want = case_class_name(decl.name, ins.field, c)
                    got = type(cd).__qualname__ if cd is not None else None
                    if got != want:
                        raise Invalid(f"case data of the wrong kind ({got} for {want})")
                    from .ir import Obj
                    check_valid(spec, Obj("case", want, c.body, decl.path), cd)
    run(decl.body)


# ---------------------------------------------------------------- PARSE (reader model)
class RState:
    def __init__(self, data, chunked=False):
        self.data = bytes(data)
        self.pos = 0
        self.chunked = chunked
        self.cs = 0

    def nb(self):
        i = self.data.find(b"\xff", self.cs)
        return len(self.data) if i < 0 else i

    def rem(self):
        if self.chunked:
            n = self.nb()
            return n - min(self.pos, n)
        return len(self.data) - self.pos

    def take(self, k):
        k = min(k, self.rem())
        b = self.data[self.pos:self.pos + k]
        self.pos += k
        return b

    def next_chunk(self):
        n = self.nb()
        self.pos = n + 1 if n < len(self.data) else n
        self.cs = self.pos


class Undefined(Exception):
    """the reading rules prescribe nothing here: a field is to be read whose length field was absent
    (an optional length field referenced from a later chunk)"""


class Diverges(Exception):
    """the reading rules do not terminate on this input: a read-to-end loop whose element consumed
    nothing (no more data became reachable, the state repeats)"""


class NegativeLength(Exception):
    """the documented ValueError: hostile data decoded to a negative fixed-string length"""


def fixed_size(spec, tref, seen=()):
    """size in bytes of a type when it is the same for every value, else None"""
    if tref.kind in ("int", "bool", "enum"):
        return tref.width
    if tref.kind in ("string", "encoded_string"):
        if tref.length is not None and tref.length.isdigit():
            return int(tref.length)
        return None
    if tref.kind == "blob":
        return None
    if tref.kind == "struct":
        total = 0
        for ins in flat(tref.struct.body):
            if ins.tag in ("chunked", "switch"):
                return None
            if ins.tag == "break":
                continue
            if ins.tag == "field":
                if ins.optional:
                    return None
                t2 = resolve_type(spec, ins.type, ins.length if ins.type.split(":")[0] in ("string", "encoded_string") else None)
                s = fixed_size(spec, t2)
            elif ins.tag == "array":
                if ins.optional or ins.delimited or ins.length is None or not ins.length.isdigit():
                    return None
                e = fixed_size(spec, resolve_type(spec, ins.type))
                s = None if e is None else e * int(ins.length)
            elif ins.tag == "dummy":
                s = fixed_size(spec, resolve_type(spec, ins.type))
            elif ins.tag == "length":
                s = None     # the generator's size computation skips <length>; see note in DESIGN
                s = 0
            else:
                s = 0
            if s is None:
                return None
            total += s
        return total
    return None


def parse(spec, decl, data, chunked=False, ctx_chunked=False):
    st = RState(data, chunked)
    obj = _parse_obj(spec, decl, st, ctx_chunked)
    return obj, st


def _read_value(spec, tref, st, ins, lenvals):
    if tref.kind == "int":
        if tref.under == "byte":
            b = st.take(1)
            return b[0] if b else 0
        return dec_int(st.take(tref.width))
    if tref.kind == "bool":
        if tref.under == "byte":
            b = st.take(1)
            return (b[0] if b else 0) != 0
        return dec_int(st.take(tref.width)) != 0
    if tref.kind == "enum":
        if tref.under == "byte":
            b = st.take(1)
            return b[0] if b else 0
        return dec_int(st.take(tref.width))
    if tref.kind in ("string", "encoded_string"):
        enc = tref.kind == "encoded_string"
        L = None
        if ins.tag == "field" and ins.length is not None:
            L = int(ins.length) if ins.length.isdigit() else lenvals[ins.length]
            if L is None:
                raise Undefined(ins.length)
        if L is None:
            b = st.take(st.rem())
            return cp_dec(ds(b) if enc else b)
        if L < 0:
            raise NegativeLength()
        b = st.take(L)
        if enc:
            b = ds(b)
        if ins.padded:
            i = b.find(b"\xff")
            if i >= 0:
                b = b[:i]
        return cp_dec(b)
    if tref.kind == "blob":
        return st.take(st.rem())
    if tref.kind == "struct":
        return _parse_obj(spec, tref.struct, st, False)
    raise AssertionError(tref.kind)


def _parse_obj(spec, decl, st, ctx_chunked):
    saved = st.chunked
    start = st.pos
    out = {"__class__": decl.name}
    types = {}
    lenvals = {}
    flags = {"chunked": ctx_chunked}

    def run(body):
        for ins in body:
            if ins.tag == "field":
                tref = resolve_type(spec, ins.type, ins.length if ins.type.split(":")[0] in ("string", "encoded_string") else None)
                if ins.name is not None:
                    types[ins.name] = tref
                if ins.optional:
                    out[ins.name] = None
                    if st.rem() > 0:
                        out[ins.name] = _read_value(spec, tref, st, ins, lenvals)
                    if ins.value is not None:
                        out[ins.name] = lit_value(tref, ins.value)     # the object always carries the literal
                    continue
                v = _read_value(spec, tref, st, ins, lenvals)
                if ins.name is not None:
                    out[ins.name] = lit_value(tref, ins.value) if ins.value is not None else v
            elif ins.tag == "length":
                tref = resolve_type(spec, ins.type)
                types[ins.name] = tref
                if ins.optional:
                    lenvals[ins.name] = None
                    if st.rem() > 0:
                        lenvals[ins.name] = _read_value(spec, tref, st, ins, lenvals) + ins.offset
                    continue
                lenvals[ins.name] = _read_value(spec, tref, st, ins, lenvals) + ins.offset
            elif ins.tag == "array":
                tref = resolve_type(spec, ins.type)
                if ins.optional:
                    out[ins.name] = None
                    if not st.rem() > 0:
                        continue
                n = None
                if ins.length is not None:
                    n = int(ins.length) if ins.length.isdigit() else lenvals[ins.length]
                    if n is None:
                        raise Undefined(ins.length)
                elif not ins.delimited:
                    z = fixed_size(spec, tref)
                    if z is not None:
                        n = st.rem() // z
                items = []
                if n is None:
                    while st.rem() > 0:
                        before = (st.pos, st.cs, st.chunked)
                        items.append(_read_value(spec, tref, st, ins, lenvals))
                        if ins.delimited:
                            st.next_chunk()
                        if (st.pos, st.cs, st.chunked) == before:
                            raise Diverges(ins.name)
                else:
                    for i in range(n):
                        items.append(_read_value(spec, tref, st, ins, lenvals))
                        if ins.delimited and (ins.trailing or i + 1 < n):
                            st.next_chunk()
                out[ins.name] = items
            elif ins.tag == "dummy":
                if st.pos == start:
                    _read_value(spec, resolve_type(spec, ins.type), st, ins, lenvals)
            elif ins.tag == "break":
                st.next_chunk()
            elif ins.tag == "chunked":
                was = flags["chunked"]
                if not was:
                    flags["chunked"] = True
                    st.chunked = True
                run(ins.body)
                if not was:
                    flags["chunked"] = False
                    st.chunked = False
            elif ins.tag == "switch":
                out[ins.field + "_data"] = None
                c = select_case(spec, ins, out[ins.field], types)
                if c is not None and c.body:
                    from .ir import Obj
                    decl2 = Obj("case", case_class_name(decl.name, ins.field, c), c.body, decl.path)
                    out[ins.field + "_data"] = _parse_obj(spec, decl2, st, flags["chunked"])
    try:
        run(decl.body)
    finally:
        consumed = st.pos - start
        st.chunked = saved
    out["byte_size"] = consumed
    return out
