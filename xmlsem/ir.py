"""xmlsem: an independent reading of the eo-protocol XML (DESIGN.md section 3 / appendix D).
Own XML parsing; does not import anything from protocol_code_generator.  This is specification,
hence trusted: it is written from the protocol rules as restated in the property statements."""
import os
import xml.etree.ElementTree as ET
from html import unescape

INT_WIDTH = {"byte": 1, "char": 1, "short": 2, "three": 3, "int": 4}
INSTR_TAGS = ("field", "array", "length", "dummy", "switch", "chunked", "break")


class SpecError(Exception):
    """the specification breaks a rule of the protocol grammar"""


def xml_bool(text, default):
    if text is None:
        return default
    return text.lower() == "true"


def text_of(el):
    t = (el.text or "").strip()
    for ch in el:
        tail = (ch.tail or "").strip()
        if tail:
            if t:
                raise SpecError(f"unexpected text content {tail!r}")
            t = tail
    return unescape(t) if t else None


class TypeRef:
    """resolved type of a field / array element"""
    def __init__(self, kind, name, under=None, enum=None, struct=None, length=None):
        self.kind = kind          # int | bool | enum | string | encoded_string | blob | struct
        self.name = name
        self.under = under        # int type name carrying an int/bool/enum on the wire
        self.enum = enum
        self.struct = struct
        self.length = length

    @property
    def width(self):
        return INT_WIDTH[self.under] if self.under else None

    @property
    def limit(self):
        if self.under is None:
            return None
        return 256 if self.under == "byte" else 253 ** INT_WIDTH[self.under]


class Enum:
    def __init__(self, name, under, values, path):
        self.name = name
        self.under = under
        self.values = values      # list of (name, ordinal, python_name)
        self.path = path

    def by_name(self, n):
        for v in self.values:
            if v[0] == n:
                return v
        return None

    def by_ordinal(self, o):
        for v in self.values:
            if v[1] == o:
                return v
        return None


class Instr:
    def __init__(self, tag, **kw):
        self.tag = tag
        self.name = kw.get("name")
        self.type = kw.get("type")            # raw type string
        self.length = kw.get("length")        # raw length attribute (digits or a length-field name)
        self.padded = kw.get("padded", False)
        self.optional = kw.get("optional", False)
        self.value = kw.get("value")          # hard-coded text
        self.delimited = kw.get("delimited", False)
        self.trailing = kw.get("trailing", True)
        self.offset = kw.get("offset", 0)
        self.field = kw.get("field")          # switch
        self.cases = kw.get("cases", [])
        self.body = kw.get("body", [])        # chunked
        self.tref = None                      # resolved TypeRef (set by resolve)
        self.el = kw.get("el")

    def __repr__(self):
        return f"<{self.tag} {self.name or ''} {self.type or ''}>"


class Case:
    def __init__(self, value, default, body, el=None):
        self.value = value
        self.default = default
        self.body = body
        self.el = el


class Obj:
    """a struct, packet or case-data object declaration"""
    def __init__(self, kind, name, body, path, family=None, action=None, el=None):
        self.kind = kind           # struct | packet | case
        self.name = name           # python class name (dotted for case classes)
        self.body = body
        self.path = path
        self.family = family
        self.action = action
        self.el = el


class Spec:
    def __init__(self):
        self.enums = {}
        self.structs = {}
        self.packets = []
        self.files = []


def parse_instr(el):
    tag = el.tag
    a = el.attrib
    if tag == "field":
        return Instr("field", name=a.get("name"), type=a.get("type"), length=a.get("length"),
                     padded=xml_bool(a.get("padded"), False), optional=xml_bool(a.get("optional"), False),
                     value=text_of(el), el=el)
    if tag == "array":
        return Instr("array", name=a.get("name"), type=a.get("type"), length=a.get("length"),
                     optional=xml_bool(a.get("optional"), False), delimited=xml_bool(a.get("delimited"), False),
                     trailing=xml_bool(a.get("trailing-delimiter"), True), value=text_of(el), el=el)
    if tag == "length":
        off = a.get("offset")
        try:
            off = int(off) if off is not None else 0
        except ValueError:
            raise SpecError("offset is not an integer")
        return Instr("length", name=a.get("name"), type=a.get("type"), offset=off,
                     optional=xml_bool(a.get("optional"), False), value=text_of(el), el=el)
    if tag == "dummy":
        return Instr("dummy", type=a.get("type"), value=text_of(el), el=el)
    if tag == "break":
        return Instr("break", el=el)
    if tag == "chunked":
        return Instr("chunked", body=parse_body(el), el=el)
    if tag == "switch":
        cases = []
        for c in el.findall("case"):
            cases.append(Case(c.attrib.get("value"), xml_bool(c.attrib.get("default"), False), parse_body(c), c))
        return Instr("switch", field=a.get("field"), cases=cases, el=el)
    raise SpecError(f"unknown instruction {tag}")


def parse_body(el):
    return [parse_instr(ch) for ch in el if ch.tag in INSTR_TAGS]


def load_tree(root):
    """Read every protocol.xml under `root` (any enumeration order gives the same Spec)."""
    files = []
    for d, _, fs in os.walk(root):
        if "protocol.xml" in fs:
            files.append(os.path.join(d, "protocol.xml"))
    files.sort()
    docs = {}
    for path in files:
        rel = os.path.dirname(os.path.relpath(path, root)).replace(os.sep, "/")
        rel = "" if rel == "." else rel
        with open(path, encoding="utf-8") as f:
            docs[rel] = f.read()
    return load_strings(docs)


def load_strings(docs):
    """docs: relative directory ('' for the root) -> protocol.xml text"""
    spec = Spec()
    for rel in sorted(docs):
        try:
            tree = ET.fromstring(docs[rel])
        except ET.ParseError as e:
            raise SpecError(f"XML parse error: {e}")
        if tree.tag != "protocol":
            raise SpecError("root element is not <protocol>")
        spec.files.append(rel)
        for e in tree.findall("enum"):
            name = e.attrib.get("name")
            if name in spec.enums or name in spec.structs:
                raise SpecError(f"type {name} redefined")
            vals = []
            for v in e.findall("value"):
                vn = v.attrib.get("name")
                txt = text_of(v)
                try:
                    o = int(txt)
                except (TypeError, ValueError):
                    raise SpecError(f"enum {name}.{vn}: bad ordinal {txt!r}")
                vals.append((vn, o, vn + "_" if vn == "None" else vn))
            spec.enums[name] = Enum(name, e.attrib.get("type"), vals, rel)
        for s in tree.findall("struct"):
            name = s.attrib.get("name")
            if name in spec.enums or name in spec.structs:
                raise SpecError(f"type {name} redefined")
            spec.structs[name] = Obj("struct", name, parse_body(s), rel, el=s)
        seen = set()
        for p in tree.findall("packet"):
            fam, act = p.attrib.get("family"), p.attrib.get("action")
            if (fam, act) in seen:
                raise SpecError("packet redefined in the same file")
            seen.add((fam, act))
            if rel == "net/client":
                suffix = "ClientPacket"
            elif rel == "net/server":
                suffix = "ServerPacket"
            else:
                raise SpecError("packet outside net/client or net/server")
            spec.packets.append(Obj("packet", f"{fam}{act}{suffix}", parse_body(p), rel, fam, act, el=p))
    return spec


def snake_to_pascal(name):
    out = ""
    up = True
    for c in name:
        if c == "_":
            up = True
            continue
        out += c.upper() if up else c.lower()
        up = False
    return out


def pascal_to_snake(name):
    out = ""
    for i, c in enumerate(name):
        if i > 0 and c.isupper() and ((i + 1 < len(name) and not name[i + 1].isupper()) or name[i - 1].islower()):
            out += "_"
        out += c.lower()
    return out


def resolve_type(spec, type_str, length=None):
    """TypeRef for a raw type string (with optional ':underlying' override)."""
    parts = type_str.split(":")
    if len(parts) > 2:
        raise SpecError("more than one colon in type")
    base = parts[0]
    over = parts[1] if len(parts) == 2 else None
    if over is not None:
        if over == base:
            raise SpecError("type specifies itself as underlying type")
        if over not in INT_WIDTH:
            raise SpecError("underlying type override is not numeric")
    if base in INT_WIDTH:
        if over is not None:
            raise SpecError("underlying override on a type without underlying type")
        if length is not None:
            raise SpecError("length on a non-string type")
        return TypeRef("int", base, under=base)
    if base == "bool":
        if length is not None:
            raise SpecError("length on a non-string type")
        return TypeRef("bool", "bool", under=over or "char")
    if base in ("string", "encoded_string"):
        if over is not None:
            raise SpecError("underlying override on a string")
        return TypeRef(base, base, length=length)
    if base == "blob":
        if over is not None:
            raise SpecError("underlying override on blob")
        if length is not None:
            raise SpecError("length on a non-string type")
        return TypeRef("blob", "blob")
    if length is not None:
        raise SpecError("length on a non-string type")
    if base in spec.enums:
        e = spec.enums[base]
        under = over or e.under
        if under == base or under not in INT_WIDTH:
            raise SpecError("enum underlying type is not numeric")
        return TypeRef("enum", base, under=under, enum=e)
    if base in spec.structs:
        if over is not None:
            raise SpecError("underlying override on a struct")
        return TypeRef("struct", base, struct=spec.structs[base])
    raise SpecError(f"type {base} is not defined")


def all_objects(spec):
    """Every object declaration that becomes a generated class: structs, packets and, recursively,
    the case-data classes of their switches, with their python class names."""
    out = []

    def walk(obj):
        out.append(obj)
        for ins in flatten_own(obj.body):
            if ins.tag == "switch":
                for c in ins.cases:
                    if c.body:
                        nm = obj.name + "." + snake_to_pascal(ins.field) + "Data" + ("Default" if c.default else c.value)
                        walk(Obj("case", nm, c.body, obj.path, el=c.el))
    for s in spec.structs.values():
        walk(s)
    for p in spec.packets:
        walk(p)
    return out


def flatten_own(body):
    """instructions of an object in document order, chunked sections opened up (case bodies are
    separate objects and are not entered)"""
    for ins in body:
        if ins.tag == "chunked":
            yield ins
            yield from flatten_own(ins.body)
        else:
            yield ins
