"""C17: catalogue of single rule-violating edits of the protocol grammar (from the property
statement), each applicable at several nesting positions and files."""
from . import specgen as G

# body-level violations: (rule id, body xml, needs-chunked-context to be *only* this violation)
BODY = [
    ("unknown-type", '<field name="a" type="Nope"/>'),
    ("unknown-array-type", '<array name="a" type="Nope"/>'),
    ("redefined-field", '<field name="a" type="char"/><field name="a" type="short"/>'),
    ("redefined-field-by-array", '<field name="a" type="char"/><array name="a" type="char"/>'),
    ("redefined-field-by-length", '<field name="a" type="char"/><length name="a" type="char"/><field name="s" type="string" length="a"/>'),
    ("length-ref-unknown", '<field name="s" type="string" length="nolen"/>'),
    ("length-ref-not-a-length-field", '<field name="n" type="char"/><field name="s" type="string" length="n"/>'),
    ("length-ref-twice", '<length name="n" type="char"/><field name="s" type="string" length="n"/><field name="t" type="string" length="n"/>'),
    ("length-ref-twice-array", '<length name="n" type="char"/><array name="s" type="char" length="n"/><array name="t" type="char" length="n"/>'),
    ("length-ref-out-of-scope", '<length name="n" type="char"/><field name="k" type="char"/><switch field="k"><case value="1">'
                                '<field name="s" type="string" length="n"/></case></switch>'),
    ("required-after-optional", '<field name="o" type="char" optional="true"/><field name="r" type="char"/>'),
    ("required-unnamed-hardcoded-after-optional", '<field name="o" type="char" optional="true"/><field type="char">1</field>'),
    ("required-named-hardcoded-after-optional", '<field name="o" type="char" optional="true"/><field name="h" type="short">300</field>'),
    ("required-unnamed-hardcoded-string-after-optional-array",
     '<array name="o" type="char" optional="true"/><field type="string" length="2">ab</field>'),
    ("required-array-after-optional", '<field name="o" type="char" optional="true"/><array name="r" type="char"/>'),
    ("required-length-after-optional", '<field name="o" type="char" optional="true"/><length name="n" type="char"/><field name="s" type="string" length="n"/>'),
    ("required-after-optional-in-case", '<field name="k" type="char"/><switch field="k"><case value="1"><field name="o" type="char" optional="true"/>'
                                        '</case></switch><field name="r" type="char"/>'),
    ("required-in-case-after-optional-before-switch",
     '<field name="k" type="char"/><field name="o" type="char" optional="true"/><switch field="k"><case value="1">'
     '<field name="x" type="char"/></case></switch>'),
    ("required-array-in-case-after-optional-before-switch",
     '<field name="k" type="char"/><field name="o" type="string" optional="true"/><switch field="k"><case value="1">'
     '<field name="y" type="char" optional="true"/></case><case default="true"><array name="x" type="char" length="2"/></case></switch>'),
    ("required-length-in-case-after-optional-before-switch",
     '<field name="k" type="char"/><field name="o" type="char" optional="true"/><switch field="k"><case value="1">'
     '<length name="n" type="char"/><field name="s" type="string" length="n"/></case></switch>'),
    ("required-in-nested-case-after-optional",
     '<field name="k" type="char"/><field name="o" type="char" optional="true"/><switch field="k"><case value="1">'
     '<field name="j" type="char" optional="true"/><switch field="j"><case value="2"><field name="x" type="char"/></case></switch>'
     '</case></switch>'),
    ("in-case-after-dummy-in-earlier-case-chain",
     '<field name="k" type="char"/><switch field="k"><case value="1"><dummy type="char">1</dummy><field name="x" type="char"/></case></switch>'),
    # flags thread through chunked sections in both directions
    ("required-in-chunked-after-optional-before-section",
     '<field name="o" type="char" optional="true"/><chunked><field name="r" type="char"/></chunked>'),
    ("required-after-chunked-section-ending-in-optional",
     '<chunked><field name="o" type="char" optional="true"/></chunked><field name="r" type="char"/>'),
    ("required-after-optional-and-caseless-switch",
     '<field name="k" type="char"/><field name="o" type="char" optional="true"/><switch field="k"></switch><field name="r" type="char"/>'),
    ("required-after-optional-and-switch-of-empty-cases",
     '<field name="k" type="char"/><field name="o" type="char" optional="true"/><switch field="k"><case value="1"/><case value="2"/></switch>'
     '<field name="r" type="char"/>'),
    ("chunked-section-after-dummy", '<dummy type="char">1</dummy><chunked><field name="a" type="string"/></chunked>'),
    ("chunked-break-after-dummy", '<dummy type="char">1</dummy><chunked><break/><field name="a" type="char"/></chunked>'),
    ("switch-after-dummy", '<dummy type="char">1</dummy><switch field="sel0"><case value="1"><field name="x" type="char"/></case></switch>'),
    ("after-dummy", '<dummy type="char">1</dummy><field name="a" type="char"/>'),
    ("dummy-after-dummy", '<dummy type="char">1</dummy><dummy type="char">1</dummy>'),
    ("after-dummy-in-case", '<field name="k" type="char"/><switch field="k"><case value="1"><dummy type="char">1</dummy></case></switch>'
                            '<field name="a" type="char"/>'),
    ("unnamed-without-value", '<field type="char"/>'),
    ("unnamed-optional", '<field type="char" optional="true">1</field>'),
    ("optional-without-name", '<field type="string" optional="true">ab</field>'),
    ("hardcoded-wrong-length", '<field type="string" length="3">ab</field>'),
    ("hardcoded-shorter-than-padded-length", '<field type="string" length="4" padded="true">ab</field>'),
    ("hardcoded-wrong-length-named", '<field name="h" type="string" length="2">abc</field>'),
    ("hardcoded-on-struct", '<field name="c" type="S">x</field>'),
    ("hardcoded-on-blob", '<field type="blob">x</field>'),
    ("hardcoded-on-enum", '<field type="E">A</field>'),
    ("hardcoded-int-not-numeric", '<field type="char">abc</field>'),
    ("hardcoded-bool-not-bool", '<field type="bool">maybe</field>'),
    ("hardcoded-named-int-not-numeric", '<field name="a" type="short">x1</field>'),
    ("hardcoded-named-bool-not-bool", '<field name="b" type="bool">yes</field>'),
    ("dummy-not-numeric", '<dummy type="short">x</dummy>'),
    ("length-on-int", '<field name="a" type="char" length="2"/>'),
    ("length-ref-on-int", '<length name="n" type="char"/><field name="a" type="short" length="n"/>'),
    ("length-ref-on-struct", '<length name="n" type="char"/><field name="a" type="S" length="n"/>'),
    ("length-ref-on-enum", '<length name="n" type="char"/><field name="a" type="E" length="n"/>'),
    ("length-ref-on-blob", '<length name="n" type="char"/><field name="a" type="blob" length="n"/>'),
    ("length-ref-on-bool", '<length name="n" type="char"/><field name="a" type="bool" length="n"/>'),
    ("length-on-struct", '<field name="a" type="S" length="2"/>'),
    ("length-on-enum", '<field name="a" type="E" length="1"/>'),
    ("length-on-blob", '<field name="a" type="blob" length="3"/>'),
    ("two-colons", '<field name="a" type="char:short:int"/>'),
    ("override-on-plain-int", '<field name="a" type="char:short"/>'),
    ("override-on-struct", '<field name="a" type="S:char"/>'),
    ("override-on-string", '<field name="a" type="string:char"/>'),
    ("override-not-numeric", '<field name="a" type="E:string"/>'),
    ("override-by-enum", '<field name="a" type="bool:E"/>'),
    ("override-self", '<field name="a" type="bool:bool"/>'),
    ("switch-on-string", '<field name="k" type="string" length="2"/><switch field="k"><case value="1"><field name="x" type="char"/></case></switch>'),
    ("switch-on-array", '<array name="k" type="char" length="2"/><switch field="k"><case value="1"><field name="x" type="char"/></case></switch>'),
    ("switch-on-struct", '<field name="k" type="S"/><switch field="k"><case value="1"><field name="x" type="char"/></case></switch>'),
    ("switch-on-bool", '<field name="k" type="bool"/><switch field="k"><case value="1"><field name="x" type="char"/></case></switch>'),
    ("switch-on-unknown-field", '<switch field="nofield"><case value="1"><field name="x" type="char"/></case></switch>'),
    ("switch-lone-default", '<field name="k" type="char"/><switch field="k"><case default="true"><field name="x" type="char"/></case></switch>'),
    ("switch-default-first-with-other-cases", '<field name="k" type="char"/><switch field="k"><case default="true"><field name="x" type="char"/></case>'
                                              '<case value="1"><field name="y" type="short"/></case></switch>'),
    ("switch-empty-default-first", '<field name="k" type="char"/><switch field="k"><case default="true"/><case value="2"/></switch>'),
    ("switch-int-case-not-numeric", '<field name="k" type="char"/><switch field="k"><case value="A"><field name="x" type="char"/></case></switch>'),
    ("switch-enum-case-unknown-name", '<field name="k" type="E"/><switch field="k"><case value="Zed"><field name="x" type="char"/></case></switch>'),
    ("switch-enum-case-named-ordinal", '<field name="k" type="E"/><switch field="k"><case value="1"><field name="x" type="char"/></case></switch>'),
    ("array-length-ref-unknown", '<array name="a" type="char" length="zz"/>'),
    ("length-of-string-type", '<length name="n" type="string"/><field name="s" type="string" length="n"/>'),
    ("length-of-enum-type", '<length name="n" type="E"/><field name="s" type="string" length="n"/>'),
    ("unbounded-element-in-plain-array", '<array name="a" type="V"/>'),
    ("unbounded-string-element-in-plain-array", '<array name="a" type="string"/>'),
]
# only ill-formed outside a chunked context
NEEDS_NO_CHUNK = [
    ("delimited-outside-chunked", '<array name="a" type="V" delimited="true"/>'),
    ("delimited-true-uppercase-outside-chunked", '<array name="a" type="string" delimited="TRUE"/>'),
    ("break-outside-chunked", '<field name="a" type="char"/><break/>'),
]
# ill-formed, and only expressible inside a chunked context
NEEDS_CHUNK = [
    ("break-after-dummy", '<field name="a" type="string"/><dummy type="char">0</dummy><break/><field name="b" type="string"/>'),
    ("break-directly-after-dummy", '<dummy type="char">0</dummy><break/>'),
    ("break-after-dummy-in-case", '<field name="k" type="char"/><switch field="k"><case value="1"><dummy type="char">1</dummy></case></switch><break/>'),
    ("delimited-array-after-dummy", '<dummy type="char">0</dummy><array name="a" type="string" delimited="true"/>'),
    # a <break> inside a case resets the CASE's copy of the flags only: what held before the switch still holds after it
    ("required-after-optional-and-switch-whose-cases-all-break",
     '<field name="k" type="char"/><field name="o" type="char" optional="true"/><switch field="k"><case value="1">'
     '<field name="x" type="char" optional="true"/><break/></case><case default="true"><break/></case></switch><field name="r" type="char"/>'),
    ("required-after-optional-and-switch-with-one-breaking-case",
     '<field name="k" type="char"/><field name="o" type="char" optional="true"/><switch field="k"><case value="1"><break/></case></switch>'
     '<field name="r" type="char"/>'),
]
POSITIONS_CHUNK = ["chunked", "chunkedcase", "nestedchunked", "casechunked"]
POSITIONS_ALL = ["top", "chunked", "case", "chunkedcase", "afterchunked", "nestedchunked", "casechunked", "afterbreak"]
POSITIONS_NOCHUNK = ["top", "case", "afterchunked", "afterbreak"]

ENUM_VIOLATIONS = [
    ("enum-bad-ordinal", '<enum name="Bad" type="char"><value name="A">x</value></enum>'),
    ("enum-empty-ordinal", '<enum name="Bad" type="char"><value name="A"></value></enum>'),
    ("enum-duplicate-ordinal", '<enum name="Bad" type="char"><value name="A">1</value><value name="B">1</value></enum>'),
    ("enum-duplicate-name", '<enum name="Bad" type="char"><value name="A">1</value><value name="A">2</value></enum>'),
    ("enum-underlying-not-numeric", '<enum name="Bad" type="string"><value name="A">1</value></enum>'),
    ("enum-underlying-self", '<enum name="Bad" type="Bad"><value name="A">1</value></enum>'),
    ("enum-underlying-struct", '<enum name="Bad" type="S"><value name="A">1</value></enum>'),
    ("enum-underlying-unknown", '<enum name="Bad" type="Nope"><value name="A">1</value></enum>'),
]


def _enum_duplicates():
    """a redefined value name / ordinal at every pair of positions of a two- or three-value enum, the first
    definition carrying ordinal 0 or not (0 is the one falsy ordinal), plus names that collide only after the
    None -> None_ renaming"""
    out = []
    for n in (2, 3):
        for i in range(n):
            for j in range(i + 1, n):
                for first in (0, 1):
                    for kind in ("name", "ordinal"):
                        names = ["A", "B", "C"][:n]
                        ords = [first + 5 * k for k in range(n)]
                        ords[i] = first
                        if kind == "name":
                            names[j] = names[i]
                        else:
                            ords[j] = ords[i]
                        body = "".join(f'<value name="{a}">{o}</value>' for a, o in zip(names, ords))
                        out.append((f"enum-duplicate-{kind}[{n}:{i},{j},first={first}]", f'<enum name="Bad" type="char">{body}</enum>'))
    for a, b in (("None", "None_"), ("None_", "None")):
        for first in (0, 1):
            out.append((f"enum-duplicate-python-name[{a},{b},first={first}]",
                        f'<enum name="Bad" type="char"><value name="{a}">{first}</value><value name="{b}">7</value></enum>'))
    return out


ENUM_VIOLATIONS += _enum_duplicates()


def body_cases():
    """yields (rule, position, struct body)"""
    for rule, frag in BODY:
        for pos in POSITIONS_ALL:
            yield rule, pos, wrap(frag, pos)
    for rule, frag in NEEDS_NO_CHUNK:
        for pos in POSITIONS_NOCHUNK:
            yield rule, pos, wrap(frag, pos)
    for rule, frag in NEEDS_CHUNK:
        for pos in POSITIONS_CHUNK:
            yield rule, pos, wrap(frag, pos)


def wrap(seq, position):
    if position == "top":
        return seq
    if position == "chunked":
        return f"<chunked>{seq}</chunked>"
    if position == "case":
        return f'<field name="sel" type="char"/><switch field="sel"><case value="1">{seq}</case></switch>'
    if position == "chunkedcase":
        return f'<chunked><field name="sel" type="char"/><switch field="sel"><case value="1">{seq}</case></switch></chunked>'
    if position == "afterbreak":
        return f'<chunked><field name="c0" type="string"/><break/></chunked>{seq}'
    if position == "afterchunked":
        return f'<chunked><field name="c0" type="string"/></chunked>{seq}'
    if position in ("nestedchunked", "casechunked"):
        from . import specgen
        return specgen.body_xml.__globals__["body_xml"]((), position).replace("</chunked></chunked>", seq + "</chunked></chunked>") \
            if False else _wrap2(seq, position)
    raise KeyError(position)


NET = ('<protocol><enum name="PacketFamily" type="byte"><value name="Fam">1</value></enum>'
       '<enum name="PacketAction" type="byte"><value name="Act">1</value><value name="Act2">2</value></enum></protocol>')
OKSTRUCT = '<struct name="Ok"><field name="a" type="char"/></struct>'


def tree_cases():
    """yields (rule, {relative dir: xml}) for whole-tree violations (files, packets, type tables)"""
    root_ok = "<protocol>" + G.SUPPORT + OKSTRUCT + "</protocol>"
    for rule, e in ENUM_VIOLATIONS:
        # the bad enum is used by a struct field (type tables are resolved on use)
        yield rule, {"": "<protocol>" + G.SUPPORT + e + '<struct name="U"><field name="b" type="Bad"/></struct></protocol>'}
        yield rule + "-other-file", {"": "<protocol>" + G.SUPPORT + '<struct name="U"><field name="b" type="Bad"/></struct></protocol>',
                                     "pub": "<protocol>" + e + "</protocol>"}
    yield "redefined-struct-same-file", {"": "<protocol>" + G.SUPPORT + OKSTRUCT + OKSTRUCT + "</protocol>"}
    yield "redefined-struct-other-file", {"": root_ok, "map": "<protocol>" + OKSTRUCT + "</protocol>"}
    yield "redefined-enum-as-struct", {"": root_ok, "pub": '<protocol><enum name="Ok" type="char"><value name="A">1</value></enum></protocol>'}
    yield "redefined-struct-as-enum", {"": "<protocol>" + G.SUPPORT + '<enum name="Ok" type="char"><value name="A">1</value></enum>' + OKSTRUCT + "</protocol>"}
    yield "redefined-enum", {"": "<protocol>" + G.SUPPORT + '<enum name="E" type="char"><value name="A">1</value></enum></protocol>'}
    pk = '<packet family="{f}" action="{a}"><field name="x" type="char"/></packet>'
    yield "unknown-packet-family", {"": root_ok, "net": NET, "net/client": "<protocol>" + pk.format(f="Nope", a="Act") + "</protocol>"}
    yield "unknown-packet-action", {"": root_ok, "net": NET, "net/server": "<protocol>" + pk.format(f="Fam", a="Nope") + "</protocol>"}
    yield "packet-enums-missing", {"": root_ok, "net/client": "<protocol>" + pk.format(f="Fam", a="Act") + "</protocol>"}
    yield "packet-action-enum-missing", {"": root_ok, "net": '<protocol><enum name="PacketFamily" type="byte"><value name="Fam">1</value></enum></protocol>',
                                         "net/client": "<protocol>" + pk.format(f="Fam", a="Act") + "</protocol>"}
    yield "packet-outside-net", {"": root_ok, "net": NET, "pub": "<protocol>" + pk.format(f="Fam", a="Act") + "</protocol>"}
    yield "packet-in-net-root", {"": root_ok, "net": NET.replace("</protocol>", pk.format(f="Fam", a="Act") + "</protocol>")}
    yield "duplicate-packet", {"": root_ok, "net": NET, "net/client": "<protocol>" + pk.format(f="Fam", a="Act") + pk.format(f="Fam", a="Act") + "</protocol>"}
    yield "root-not-protocol", {"": root_ok, "pub": "<spec>" + '<struct name="P"><field name="a" type="char"/></struct>' + "</spec>"}
    yield "packet-body-violation", {"": root_ok, "net": NET, "net/client": '<protocol><packet family="Fam" action="Act"><field type="char"/></packet></protocol>'}
    yield "packet-break-outside-chunked", {"": root_ok, "net": NET, "net/server": '<protocol><packet family="Fam" action="Act"><break/></packet></protocol>'}
    yield "struct-in-other-file-violation", {"": root_ok, "map": '<protocol><struct name="M"><field name="a" type="char"/><field name="a" type="char"/></struct></protocol>'}


def _wrap2(seq, position):
    if position == "nestedchunked":
        return f'<chunked><field name="c0" type="string"/><break/><chunked>{seq}</chunked></chunked>'
    return (f'<chunked><field name="sel" type="char"/><switch field="sel"><case value="1"><chunked>{seq}</chunked>'
            f'</case></switch></chunked>')
