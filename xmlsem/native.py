"""E3 at program level: the real generated classes (emitted by /repo's generator from a spec
tree) exercised natively against xmlsem.concrete.  Bounded stand-in and replay vehicle; never
counted as proof."""
import importlib
import os
import random
import sys
import types

from . import ir as X
from . import concrete as C

GEN = "eolib.protocol._generated"


def _purge():
    for k in [k for k in sys.modules if k == "eolib" or k.startswith("eolib.")]:
        del sys.modules[k]


def load_program(out_dir, repo=None):
    """import the generated package over the repository's real library modules (stub parents so
    that no package __init__ with star-imports is executed)"""
    repo = repo or os.environ.get("VERIF_REPO", "/repo")
    _purge()
    src = os.path.join(repo, "src", "eolib")

    def stub(name, path):
        m = types.ModuleType(name)
        m.__path__ = [path]
        sys.modules[name] = m
        return m
    stub("eolib", src)
    stub("eolib.data", os.path.join(src, "data"))
    stub("eolib.protocol", os.path.join(src, "protocol"))
    stub("eolib.protocol.net", os.path.join(src, "protocol", "net"))
    stub(GEN, out_dir)
    importlib.invalidate_caches()


class NonTermination(BaseException):
    """raised by the counting reader; a BaseException so that no handler in generated code swallows it"""


class Program:
    def __init__(self, spec_dir, out_dir, repo=None):
        self.spec = X.load_tree(spec_dir)
        self.out_dir = out_dir
        load_program(out_dir, repo)
        self.decls = {o.name: o for o in X.all_objects(self.spec)}
        self.ctx = self._ctx()
        self.classes = {}
        from eolib.data.eo_writer import EoWriter
        from eolib.data.eo_reader import EoReader
        self.EoWriter, self.EoReader = EoWriter, EoReader
        self.SerializationError = importlib.import_module("eolib.protocol.serialization_error").SerializationError

    def _ctx(self):
        out = {}

        def walk(decl, ctx):
            out[decl.name] = ctx

            def run(body, ch):
                for ins in body:
                    if ins.tag == "chunked":
                        run(ins.body, True)
                    elif ins.tag == "switch":
                        for c in ins.cases:
                            if c.body:
                                walk(self.decls[C.case_class_name(decl.name, ins.field, c)], ch)
            run(decl.body, ctx)
        for d in list(self.spec.structs.values()) + self.spec.packets:
            walk(d, False)
        return out

    def cls(self, name):
        if name in self.classes:
            return self.classes[name]
        decl = self.decls[name]
        top = name.split(".")[0]
        mod = GEN + ("." + decl.path.replace("/", ".") if decl.path else "") + "." + X.pascal_to_snake(top)
        m = importlib.import_module(mod)
        obj = getattr(m, top)
        for p in name.split(".")[1:]:
            obj = getattr(obj, p)
        self.classes[name] = obj
        return obj

    def enum_cls(self, e):
        mod = GEN + ("." + e.path.replace("/", ".") if e.path else "") + "." + X.pascal_to_snake(e.name)
        return getattr(importlib.import_module(mod), e.name)

    # ------------------------------------------------------------ value generation
    STR_ALPHA = ["a", "Z", " ", "~", "y", "ÿ", "€", "Ÿ", "Ā", "\U0001F600", "\x00", "!", "é", "\x81", "\x85", "\x9f"]

    def gen_string(self, rng, n=None, safe=False, ff_ok=False):
        if n is None:
            n = rng.randrange(0, 6)
        # safe = inside C01's value domain: y-diaeresis only where the string is neither sanitised nor padded
        alpha = (["a", "Z", " ", "y", "!", "é", "b"] + (["ÿ", "ÿ"] if ff_ok else [])) if safe else self.STR_ALPHA
        return "".join(rng.choice(alpha) for _ in range(n))

    def gen_int(self, rng, limit):
        r = rng.random()
        if r < 0.3:
            return rng.choice([0, 1, limit - 1, min(252, limit - 1), min(253, limit - 1)])
        if r < 0.6:
            return rng.randrange(0, min(limit, 300))
        return rng.randrange(0, limit)

    def gen_scalar(self, tref, rng, ins=None, safe=False, depth=0, lenlimit=None, sanit=True):
        if tref.kind == "int":
            return self.gen_int(rng, tref.limit)
        if tref.kind == "bool":
            return rng.random() < 0.5
        if tref.kind == "enum":
            ec = self.enum_cls(tref.enum)
            if rng.random() < 0.75 and tref.enum.values:
                pick = rng.choice(tref.enum.values)[1]
                return ec(pick if pick < tref.limit else 0)      # a declared ordinal may not fit an overriding type
            return ec(self.gen_int(rng, tref.limit))
        if tref.kind in ("string", "encoded_string"):
            enc_safe = safe
            ff_ok = not sanit and not (ins is not None and ins.tag == "field" and ins.padded)
            if ins is not None and ins.tag == "field" and ins.length is not None:
                if ins.length.isdigit():
                    L = int(ins.length)
                    n = rng.randrange(0, L + 1) if ins.padded else L
                else:
                    n = rng.randrange(0, min(6, lenlimit + 1) if lenlimit is not None else 6)
                    if lenlimit is not None and lenlimit <= 260 and depth == 0 and rng.random() < 0.2:
                        n = lenlimit                                 # the longest string a one-byte length field can carry
                return self.gen_string(rng, n, enc_safe, ff_ok)
            return self.gen_string(rng, None, enc_safe, ff_ok)
        if tref.kind == "blob":
            return bytes(rng.choice([0, 1, 0xFE, 0xFF, 65]) for _ in range(rng.randrange(0, 5)))
        if tref.kind == "struct":
            return self.gen_tree(tref.struct, rng, safe, depth + 1, mode=sanit)
        raise AssertionError(tref.kind)

    def build(self, t):
        """value tree -> instances of the generated classes"""
        if isinstance(t, dict) and "__decl__" in t:
            return self.cls(t["__decl__"])(**{k: self.build(v) for k, v in t["kwargs"].items()})
        if isinstance(t, list):
            return [self.build(x) for x in t]
        return t

    def gen_object(self, decl, rng, safe=False, depth=0, want_all_optional=None):
        return self.build(self.gen_tree(decl, rng, safe, depth, want_all_optional))

    def _modes(self, body, mode, out):
        for ins in body:
            if ins.tag == "chunked":
                self._modes(ins.body, True, out)
            else:
                out[id(ins)] = mode
        return out

    def gen_tree(self, decl, rng, safe=False, depth=0, want_all_optional=None, mode=None):
        """a valid value of the generated class for `decl`, as a tree of constructor arguments"""
        kwargs = {}
        if mode is None:
            mode = bool(self.ctx.get(decl.name, False))
        modes = self._modes(decl.body, mode, {})
        flat = list(C.flat(decl.body))
        lf = C.length_fields(decl.body)
        types_ = {}
        missing = False
        if want_all_optional is None:
            want_all_optional = rng.random() < 0.5
        for ins in X.flatten_own(decl.body):
            if ins.tag == "field" and ins.name is not None:
                tref = X.resolve_type(self.spec, ins.type, ins.length if ins.type.split(":")[0] in ("string", "encoded_string") else None)
                types_[ins.name] = tref
                if ins.value is not None:
                    # a named hard-coded field is still a (ignored) keyword-only constructor argument
                    kwargs[ins.name] = C.lit_value(tref, ins.value)
                    continue
                if ins.optional:
                    if missing or not (want_all_optional or rng.random() < 0.5):
                        missing = True
                        kwargs[ins.name] = None
                        continue
                lenlimit = None
                if ins.length is not None and not ins.length.isdigit():
                    lfi = lf[ins.length]
                    lenlimit = X.resolve_type(self.spec, lfi.type).limit - 1 + lfi.offset
                v = self.gen_scalar(tref, rng, ins, safe, depth, lenlimit, sanit=modes.get(id(ins), True))
                if ins.length is not None and not ins.length.isdigit() and len(v) < lf[ins.length].offset:
                    v = v + "a" * (lf[ins.length].offset - len(v))
                kwargs[ins.name] = v
            elif ins.tag == "array":
                tref = X.resolve_type(self.spec, ins.type)
                if ins.optional and (missing or not (want_all_optional or rng.random() < 0.5)):
                    missing = True
                    kwargs[ins.name] = None
                    continue
                if ins.length is not None and ins.length.isdigit():
                    n = int(ins.length)
                else:
                    n = rng.randrange(0, 3 if depth > 0 else 4)
                    if ins.length is not None:
                        n = max(n, lf[ins.length].offset)
                        lim = X.resolve_type(self.spec, lf[ins.length].type).limit
                        if lim <= 256 and depth == 0 and rng.random() < 0.2:
                            n = lim - 1 + lf[ins.length].offset      # the longest array a one-byte length field can carry
                kwargs[ins.name] = [self.gen_scalar(tref, rng, None, safe, depth, sanit=modes.get(id(ins), True)) for _ in range(n)]
            elif ins.tag == "switch":
                tref = types_[ins.field]
                cases = ins.cases
                c = rng.choice(cases) if cases and rng.random() < 0.85 else None
                if c is not None and not c.default:
                    if tref.kind == "enum":
                        ev = tref.enum.by_name(c.value)
                        val = self.enum_cls(tref.enum)(ev[1] if ev else int(c.value))
                    else:
                        val = int(c.value)
                    kwargs[ins.field] = val
                sel = C.select_case(self.spec, ins, kwargs[ins.field], types_)
                if sel is not None and sel.body:
                    kwargs[ins.field + "_data"] = self.gen_tree(
                        self.decls[C.case_class_name(decl.name, ins.field, sel)], rng, safe, depth + 1,
                        mode=modes.get(id(ins), True))
                else:
                    kwargs[ins.field + "_data"] = None
            elif ins.tag == "break":
                missing = False
        return {"__decl__": decl.name, "kwargs": kwargs}

    # ------------------------------------------------------------ one declaration-violating change
    def violations(self, tree, rng):
        """all single declaration-violating edits applicable to a value tree: list of (path, kind, apply)"""
        out = []
        decl = self.decls[tree["__decl__"]]
        kw = tree["kwargs"]
        lf = C.length_fields(decl.body)
        types_ = {}
        missing = False
        for ins in X.flatten_own(decl.body):
            if ins.tag == "break":
                missing = False
            if ins.tag in ("field", "array") and ins.name is not None and getattr(ins, "value", None) is None:
                if ins.optional and kw.get(ins.name) is None:
                    missing = True
                if missing:
                    continue            # values after an absent optional are not written at all
            if ins.tag == "field" and ins.name is not None and ins.value is None:
                tref = X.resolve_type(self.spec, ins.type, ins.length if ins.type.split(":")[0] in ("string", "encoded_string") else None)
                types_[ins.name] = tref
                v = kw.get(ins.name)
                if not ins.optional and not (ins.length in lf):
                    out.append((ins.name, "required-none", lambda k=ins.name: kw.__setitem__(k, None)))
                if v is None:
                    continue
                if tref.kind == "int":
                    out.append((ins.name, "int-at-limit", lambda k=ins.name, t=tref: kw.__setitem__(k, t.limit)))
                    out.append((ins.name, "int-far-beyond", lambda k=ins.name, t=tref: kw.__setitem__(k, t.limit * 7 + 3)))
                if tref.kind == "enum":
                    out.append((ins.name, "enum-ordinal-at-limit",
                                lambda k=ins.name, t=tref: kw.__setitem__(k, self.enum_cls(t.enum)(t.limit))))
                if tref.kind in ("string", "encoded_string") and ins.length is not None:
                    if ins.length.isdigit():
                        L = int(ins.length)
                        out.append((ins.name, "string-too-long", lambda k=ins.name, L=L: kw.__setitem__(k, "a" * (L + 1))))
                        if not ins.padded and L > 0:
                            out.append((ins.name, "string-too-short", lambda k=ins.name, L=L: kw.__setitem__(k, "a" * (L - 1))))
                    else:
                        lfi = lf[ins.length]
                        lim = X.resolve_type(self.spec, lfi.type).limit - 1 + lfi.offset
                        if lim < 70000:
                            out.append((ins.name, "string-exceeds-length-field", lambda k=ins.name, n=lim + 1: kw.__setitem__(k, "a" * n)))
                if tref.kind == "struct" and isinstance(v, dict):
                    for (pth, kind, ap) in self.violations(v, rng):
                        out.append((ins.name + "." + pth, kind, ap))
            elif ins.tag == "array":
                tref = X.resolve_type(self.spec, ins.type)
                v = kw.get(ins.name)
                if v is None:
                    continue
                if ins.length is not None and ins.length.isdigit():
                    out.append((ins.name, "array-too-long", lambda k=ins.name: kw.__setitem__(k, kw[k] + kw[k][:1] if kw[k] else kw[k] + [self._filler(ins)])))
                    if int(ins.length) > 0:
                        out.append((ins.name, "array-too-short", lambda k=ins.name: kw.__setitem__(k, kw[k][:-1])))
                elif ins.length is not None:
                    lfi = lf[ins.length]
                    lim = X.resolve_type(self.spec, lfi.type).limit - 1 + lfi.offset
                    if lim < 1000 and v:
                        out.append((ins.name, "array-exceeds-length-field", lambda k=ins.name, n=lim + 1: kw.__setitem__(k, [kw[k][0]] * n)))
                if tref.kind == "int" and v:
                    out.append((ins.name + "[0]", "element-at-limit", lambda k=ins.name, t=tref: kw[k].__setitem__(0, t.limit)))
                if tref.kind == "struct" and v and isinstance(v[-1], dict):
                    for (pth, kind, ap) in self.violations(v[-1], rng):
                        out.append((ins.name + "[-1]." + pth, kind, ap))
            elif ins.tag == "switch":
                tref = types_.get(ins.field)
                if tref is None or kw.get(ins.field) is None:
                    continue
                sel = C.select_case(self.spec, ins, kw[ins.field], types_)
                cd = kw.get(ins.field + "_data")
                if sel is not None and sel.body:
                    out.append((ins.field + "_data", "case-data-none", lambda k=ins.field + "_data": kw.__setitem__(k, None)))
                    others = [c for c in ins.cases if c.body and c is not sel]
                    if others:
                        o = others[0]
                        out.append((ins.field + "_data", "case-data-wrong-kind",
                                    lambda k=ins.field + "_data", o=o: kw.__setitem__(
                                        k, self.gen_tree(self.decls[C.case_class_name(decl.name, ins.field, o)], rng))))
                    if isinstance(cd, dict):
                        for (pth, kind, ap) in self.violations(cd, rng):
                            out.append((ins.field + "_data." + pth, kind, ap))
                else:
                    withbody = [c for c in ins.cases if c.body]
                    if withbody:
                        o = withbody[0]
                        out.append((ins.field + "_data", "case-data-where-none-expected",
                                    lambda k=ins.field + "_data", o=o: kw.__setitem__(
                                        k, self.gen_tree(self.decls[C.case_class_name(decl.name, ins.field, o)], rng))))
        return out

    def _filler(self, ins):
        return 0

    # ------------------------------------------------------------ checks on one class
    def to_model(self, obj):
        """generated instance -> the dict model xmlsem.concrete.parse produces"""
        if obj is None or isinstance(obj, (int, str, bytes, bytearray, bool)):
            if isinstance(obj, bool):
                return obj
            if isinstance(obj, int):
                return int(obj)
            if isinstance(obj, (bytes, bytearray)):
                return bytes(obj)
            return obj
        if isinstance(obj, (list, tuple)):
            return [self.to_model(x) for x in obj]
        out = {"__class__": type(obj).__qualname__}
        decl = self.decls[type(obj).__qualname__]
        for ins in X.flatten_own(decl.body):
            if ins.tag in ("field", "array") and ins.name is not None:
                v = getattr(obj, ins.name)
                tref = X.resolve_type(self.spec, ins.type, ins.length if ins.tag == "field" and ins.type.split(":")[0] in ("string", "encoded_string") else None)
                if tref.kind == "enum" and v is not None:
                    # "unknown enum ordinals are preserved": as instances of the DECLARED enum type
                    ec = self.enum_cls(tref.enum)
                    bad = [x for x in (v if ins.tag == "array" else [v]) if not isinstance(x, ec)]
                    if bad:
                        out[ins.name] = f"<{type(bad[0]).__name__} instance {bad[0]!r} where an instance of {ec.__name__} is prescribed>"
                        continue
                out[ins.name] = self.to_model(v)
            elif ins.tag == "switch":
                out[ins.field + "_data"] = self.to_model(getattr(obj, ins.field + "_data"))
        out["byte_size"] = obj.byte_size
        return out

    def serialize(self, name, obj, san=False):
        w = self.EoWriter()
        w.string_sanitization_mode = san
        self.cls(name).serialize(w, obj)
        return w

    def check_wire(self, name, obj, san=False):
        """C02 / C15 on one object: returns None or a failure dict"""
        decl = self.decls[name]
        want = C.wire(self.spec, decl, obj, san, self.ctx[name])
        w = self.EoWriter()
        w.add_bytes(b"\x07")
        w.string_sanitization_mode = san
        try:
            self.cls(name).serialize(w, obj)
        except Exception as e:
            return {"kind": "valid-object-refused", "exception": repr(e)}
        got = bytes(w.to_bytearray())[1:]
        if w.string_sanitization_mode != san:
            return {"kind": "mode-not-restored", "property": "C15"}
        if got != want:
            return {"kind": "wire-mismatch", "property": "C02", "got": list(got), "want": list(want)}
        return None

    def check_parse(self, name, data, chunked=False):
        """C03 / C15 on one byte string"""
        decl = self.decls[name]
        try:
            want, st = C.parse(self.spec, decl, data, chunked or self.ctx[name], self.ctx[name])
            want_exc = None
        except C.NegativeLength:
            want, st, want_exc = None, None, "ValueError"
        except (C.Diverges, C.Undefined):
            want, st, want_exc = None, None, "diverges"     # nothing is prescribed: only "terminates, no foreign exception" is judged
        r = self.counting_reader(bytes(data))
        r.chunked_reading_mode = chunked or self.ctx[name]
        mode0 = r.chunked_reading_mode
        try:
            got = self.cls(name).deserialize(r)
        except NonTermination as e:
            return {"kind": "does-not-terminate", "property": "C03", "detail": str(e),
                    "reading_rules_terminate": want_exc != "diverges"}
        except ValueError as e:
            if r.chunked_reading_mode != mode0:
                return {"kind": "mode-not-restored-on-raise", "property": "C15"}
            if want_exc in ("ValueError", "diverges"):
                return None
            return {"kind": "unexpected-ValueError", "property": "C03", "exception": repr(e)}
        except Exception as e:
            return {"kind": "exception-escapes", "property": "C03", "exception": repr(e)}
        if want_exc == "diverges":
            return None                 # the reading rules prescribe nothing here; terminating is all C03 asks
        if want_exc is not None:
            return {"kind": "missing-ValueError", "property": "C03"}
        if r.chunked_reading_mode != mode0:
            return {"kind": "mode-not-restored", "property": "C15"}
        gm = self.to_model(got)
        if gm != want:
            return {"kind": "parse-mismatch", "property": "C03", "got": _short(gm), "want": _short(want)}
        if r.position != st.pos:
            return {"kind": "position-mismatch", "property": "C03", "got": r.position, "want": st.pos}
        return None

    def counting_reader(self, data):
        """an EoReader that gives up (NonTermination) once `remaining` has been evaluated far more often
        than any terminating deserializer can on this input: every loop head evaluates it, and every
        terminating iteration consumes a byte or advances the chunk start"""
        base = self.EoReader
        cap = 2000 + 200 * len(data)

        class CountingReader(base):
            evaluations = 0

            @property
            def remaining(self):
                CountingReader.evaluations += 1
                if CountingReader.evaluations > cap:
                    raise NonTermination(f"reader.remaining evaluated more than {cap} times on {len(data)} bytes; "
                                         f"position {self.position} no longer changes")
                return base.remaining.fget(self)
        return CountingReader(data)

    def check_roundtrip(self, name, obj):
        """C01 on one object (caller guarantees wire-unambiguous spec and round-trip domain)"""
        w = self.EoWriter()
        self.cls(name).serialize(w, obj)
        data = bytes(w.to_bytearray())
        r = self.counting_reader(data)
        if self.ctx[name]:
            r.chunked_reading_mode = True
        try:
            back = self.cls(name).deserialize(r)
        except NonTermination as e:
            return {"kind": "does-not-terminate", "property": "C01", "detail": str(e), "bytes": list(data)}
        a, b = self.to_model(obj), self.to_model(back)
        a["byte_size"] = b["byte_size"]
        _strip_sizes(a)
        _strip_sizes(b)
        if a != b:
            return {"kind": "roundtrip-mismatch", "property": "C01", "sent": _short(a), "got": _short(b), "bytes": list(data)}
        if r.remaining != 0:
            return {"kind": "bytes-left", "property": "C01", "remaining": r.remaining}
        if back.byte_size != len(data):
            return {"kind": "byte-size", "property": "C01", "byte_size": back.byte_size, "len": len(data)}
        return None


def _strip_sizes(m):
    if isinstance(m, dict):
        m.pop("byte_size", None)
        for v in m.values():
            _strip_sizes(v)
    elif isinstance(m, list):
        for v in m:
            _strip_sizes(v)


def _short(m):
    s = repr(m)
    return s if len(s) < 600 else s[:600] + "..."
