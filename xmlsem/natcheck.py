"""Deterministic native searches (per class, per property) on the real generated code.
Replay = the same search with the same seed.  Bounded; never counted as proof."""
import copy
import random

from . import concrete as C
from . import ir as X
from .native import NonTermination


def search(P, name, prop, seed, budget=200, wall_s=None):
    """returns None or a failure dict (with 'iteration' so that the replay is exact).  wall_s: stop starting new
    iterations after that many seconds (a found failure is still reproducible: the iterations are deterministic)"""
    import time
    rng = random.Random(f"{seed}:{name}:{prop}")
    decl = P.decls[name]
    fn = {"C02": _c02, "C16": _c16, "C15": _c15, "C19": _c19, "C03": _c03, "C01": _c01}[prop]
    evals = 0
    t0 = time.time()
    for it in range(budget):
        if wall_s is not None and it > 0 and time.time() - t0 > wall_s:
            return {"ok": True, "evaluations": evals, "stopped_after_s": round(time.time() - t0, 1), "iterations": it}
        f, n = fn(P, name, decl, rng)
        evals += n
        if f is not None:
            f["iteration"] = it
            f["class"] = name
            f["evaluations"] = evals
            return f
    return {"ok": True, "evaluations": evals}


def _c02(P, name, decl, rng):
    if decl.kind == "packet":
        cls = P.cls(name)
        for meth, en, declared in (("family", "PacketFamily", decl.family), ("action", "PacketAction", decl.action)):
            ev = P.spec.enums[en].by_name(declared)
            try:
                got = getattr(cls, meth)()
            except Exception as e:
                return {"kind": "packet-" + meth + "-raises", "property": "C02", "declared": declared, "exception": repr(e)}, 1
            if int(got) != ev[1] or got.name != ev[2]:
                return {"kind": "packet-reports-wrong-" + meth, "property": "C02", "declared": declared,
                        "reported": repr(got)}, 1
    tree = P.gen_tree(decl, rng)
    obj = P.build(tree)
    n = 0
    for san in (False, True):
        n += 1
        f = P.check_wire(name, obj, san)
        if f and f.get("kind") != "mode-not-restored":
            f["object"] = repr(obj)[:500]
            f["sanitize"] = san
            return f, n
    return None, n


def _serialize_outcome(P, name, obj, san=False, writer=None):
    w = writer or P.EoWriter()
    w.string_sanitization_mode = san
    try:
        P.cls(name).serialize(w, obj)
        return "ok", w
    except P.SerializationError:
        return "SerializationError", w
    except ValueError:
        return "ValueError", w
    except Exception as e:
        return "other:" + repr(e), w


def _c16(P, name, decl, rng):
    tree = P.gen_tree(decl, rng)
    edits = P.violations(tree, rng)
    n = 0
    for idx in range(len(edits)):
        t2 = copy.deepcopy(tree)
        e2 = P.violations(t2, random.Random(0))
        if idx >= len(e2):
            continue
        path, kind, apply = e2[idx]
        try:
            apply()
            obj = P.build(t2)
        except Exception:
            continue                # the constructor itself refused the value
        try:
            C.check_valid(P.spec, decl, obj)
            continue                # the edit did not make the object invalid
        except C.Invalid as why:
            reason = str(why)
        except Exception:
            reason = "oracle error"
        n += 1
        out, w = _serialize_outcome(P, name, obj, rng.random() < 0.5)
        if out == "ok":
            return {"kind": "invalid-object-serialized", "property": "C16", "edit": f"{path}: {kind}",
                    "why_invalid": reason, "object": repr(obj)[:500], "bytes": list(w.to_bytearray())[:80]}, n
        if out.startswith("other:"):
            return {"kind": "wrong-exception-class", "property": "C16", "edit": f"{path}: {kind}",
                    "exception": out[6:], "object": repr(obj)[:500]}, n
    return None, max(n, 1)


def _failing_writer(P, fail_at):
    class FailingWriter(P.EoWriter):
        calls = 0

        def _tick(self):
            FailingWriter.calls += 1
            if FailingWriter.calls == fail_at:
                raise RuntimeError("injected writer failure")

        def add_byte(self, v):
            self._tick()
            return super().add_byte(v)

        def add_bytes(self, b):
            self._tick()
            return super().add_bytes(b)

        def _add_bytes_with_length(self, b, n):
            self._tick()
            return super()._add_bytes_with_length(b, n)
    FailingWriter.calls = 0
    return FailingWriter()


def _c15(P, name, decl, rng):
    tree = P.gen_tree(decl, rng)
    obj = P.build(tree)
    n = 0
    for san in (False, True):
        out, w = _serialize_outcome(P, name, obj, san)
        n += 1
        if w.string_sanitization_mode != san:
            return {"kind": "writer-mode-not-restored", "property": "C15", "entry_mode": san, "outcome": out,
                    "object": repr(obj)[:400]}, n
        for fail_at in (1, 2, 3, 5, 8):
            fw = _failing_writer(P, fail_at)
            out2, w2 = _serialize_outcome(P, name, obj, san, fw)
            n += 1
            if w2.string_sanitization_mode != san:
                return {"kind": "writer-mode-not-restored-after-failure", "property": "C15", "entry_mode": san,
                        "fail_at_call": fail_at, "outcome": out2, "object": repr(obj)[:400]}, n
    # invalid objects: the raise path
    edits = P.violations(tree, rng)
    for idx in range(min(len(edits), 6)):
        t2 = copy.deepcopy(tree)
        e2 = P.violations(t2, random.Random(0))
        if idx >= len(e2):
            continue
        try:
            e2[idx][2]()
            o2 = P.build(t2)
        except Exception:
            continue
        for san in (False, True):
            out, w = _serialize_outcome(P, name, o2, san)
            n += 1
            if w.string_sanitization_mode != san:
                return {"kind": "writer-mode-not-restored-on-raise", "property": "C15", "entry_mode": san,
                        "outcome": out, "edit": e2[idx][0] + ": " + e2[idx][1]}, n
    out, w = _serialize_outcome(P, name, obj, P.ctx[name])
    data = bytes(w.to_bytearray()) if out == "ok" else b""
    for cut in sorted(set([0, len(data)] + [rng.randrange(0, len(data) + 1) for _ in range(4)])):
        for ch in (False, True):
            if P.ctx[name] and not ch:
                continue
            r = P.counting_reader(data[:cut])
            r.chunked_reading_mode = ch
            try:
                P.cls(name).deserialize(r)
                o = "ok"
            except NonTermination:
                continue            # C03's concern (and a listed known finding there), not a mode question
            except Exception as e:
                o = repr(e)
            n += 1
            if r.chunked_reading_mode != ch:
                return {"kind": "reader-mode-not-restored", "property": "C15", "entry_mode": ch, "outcome": o,
                        "bytes": list(data[:cut])}, n
    return None, n


def _c19(P, name, decl, rng):
    tree = P.gen_tree(decl, rng)
    # caller keeps the lists it passed in
    obj = P.build(tree)
    n = 0
    fields = []
    for ins in X.flatten_own(decl.body):
        if ins.tag in ("field", "array") and ins.name is not None:
            fields.append((ins.name, ins.tag))
        elif ins.tag == "switch":
            fields.append((ins.field + "_data", "case"))
    shown0 = repr(obj)
    before = bytes(P.serialize(name, obj, P.ctx[name]).to_bytearray())
    n += 1
    if repr(obj) != shown0:
        return {"kind": "serialize-changes-the-instance", "property": "C19", "before": shown0[:300], "after": repr(obj)[:300]}, n
    for fname, tag in fields + [("byte_size", "size")]:
        n += 1
        try:
            setattr(obj, fname, getattr(obj, fname))
            return {"kind": "field-assignable", "property": "C19", "field": fname}, n
        except AttributeError:
            pass
        except Exception as e:
            return {"kind": "wrong-exception-on-assignment", "property": "C19", "field": fname, "exception": repr(e)}, n
        if tag == "array" and getattr(obj, fname) is not None and not isinstance(getattr(obj, fname), tuple):
            return {"kind": "array-not-a-tuple", "property": "C19", "field": fname,
                    "type": type(getattr(obj, fname)).__name__}, n
    # caller-side mutation of constructor arguments between serializations
    kw = {k: P.build(v) for k, v in tree["kwargs"].items()}
    lists = {k: v for k, v in kw.items() if isinstance(v, list)}
    obj2 = P.cls(name)(**kw)
    b1 = bytes(P.serialize(name, obj2, P.ctx[name]).to_bytearray())
    for k, v in lists.items():
        v.append(v[0] if v else 0)
        v.reverse()
    b2 = bytes(P.serialize(name, obj2, P.ctx[name]).to_bytearray())
    n += 1
    if b1 != b2:
        return {"kind": "array-aliases-constructor-argument", "property": "C19", "fields": sorted(lists)}, n
    after = bytes(P.serialize(name, obj, P.ctx[name]).to_bytearray())
    if before != after:
        return {"kind": "serialize-not-deterministic", "property": "C19"}, n
    # deserialized instances alike
    r = P.counting_reader(before)
    r.chunked_reading_mode = P.ctx[name]
    try:
        back = P.cls(name).deserialize(r)
    except NonTermination:
        return None, n          # C03's concern (and a listed known finding there)
    except Exception:
        return None, n
    # a later deserialize call must not change an instance handed out earlier (shared / cached instances)
    shown = repr(back)
    for other in (before + bytes([65, 66, 67]), before[:max(0, len(before) - 1)], b""):
        r2 = P.counting_reader(other)
        r2.chunked_reading_mode = P.ctx[name]
        try:
            P.cls(name).deserialize(r2)
        except BaseException:
            pass
        n += 1
        if repr(back) != shown:
            return {"kind": "deserialize-changes-an-earlier-instance", "property": "C19", "before": shown[:300],
                    "after": repr(back)[:300], "first_bytes": list(before)[:60], "second_bytes": list(other)[:60]}, n
    try:
        s1 = bytes(P.serialize(name, back, P.ctx[name]).to_bytearray())
    except Exception:
        return None, n
    for fname, tag in fields:
        v = getattr(back, fname)
        n += 1
        if isinstance(v, (bytearray, list, dict, set)):
            return {"kind": "deserialized-field-is-mutable", "property": "C19", "field": fname,
                    "type": type(v).__name__, "bytes": list(before)[:60]}, n
    s2 = bytes(P.serialize(name, back, P.ctx[name]).to_bytearray())
    if s1 != s2:
        return {"kind": "deserialized-serialize-not-deterministic", "property": "C19"}, n
    return None, n


def _c03(P, name, decl, rng):
    tree = P.gen_tree(decl, rng)
    obj = P.build(tree)
    out, w = _serialize_outcome(P, name, obj, P.ctx[name])
    data = bytes(w.to_bytearray()) if out == "ok" else b""
    n = 0
    if len(data) <= 192:
        cuts = range(len(data) + 1)
    else:
        # long serializations (boundary-length arrays): every prefix would make one iteration quadratic - the first and
        # last 64 cut points and 64 drawn in between
        cuts = sorted(set(range(65)) | set(range(len(data) - 64, len(data) + 1)) | {rng.randrange(len(data)) for _ in range(64)})
    cands = [data[:c] for c in cuts]
    # a break byte at every position (inserted, substituted): what chunked reading is sensitive to
    for j in range(min(len(data), 24) + 1):
        cands.append(data[:j] + b"\xff" + data[j:])
        if j < len(data):
            cands.append(data[:j] + b"\xff" + data[j + 1:])
    for _ in range(6):
        if data:
            b = bytearray(data)
            i = rng.randrange(len(b))
            b[i] = rng.choice([0x00, 0xFE, 0xFF, 0x01, rng.randrange(256)])
            cands.append(bytes(b))
            j = rng.randrange(len(data) + 1)
            cands.append(data[:j] + bytes([rng.choice([0x00, 0xFE, 0xFF])]) + data[j:])
        cands.append(data + bytes(rng.choice([0, 1, 0xFE, 0xFF, 65]) for _ in range(rng.randrange(1, 6))))
        cands.append(bytes(rng.randrange(256) for _ in range(rng.randrange(0, 14))))
    for d in cands:
        for ch in ((True,) if P.ctx[name] else (False, True)):
            n += 1
            f = P.check_parse(name, d, ch)
            if f and not f.get("kind", "").startswith("mode-"):
                f["bytes"] = list(d)
                f["chunked"] = ch
                return f, n
    return None, n


def _c01(P, name, decl, rng):
    tree = P.gen_tree(decl, rng, safe=True)
    try:
        obj = P.build(tree)
    except Exception as e:
        return {"kind": "valid-value-unconstructible", "property": "C01", "exception": repr(e)}, 1
    if not roundtrip_domain(P, decl, obj):
        return None, 0
    try:
        f = P.check_roundtrip(name, obj)
    except Exception as e:
        f = {"kind": "exception", "property": "C01", "exception": repr(e)}
    if f:
        f["object"] = repr(obj)[:500]
    return f, 1


def roundtrip_domain(P, decl, obj):
    """the documented lossy values are outside C01's domain: empty optional tails (an optional
    string that is present but empty reads back as absent), padded strings ending in 0xFF"""
    missing = False
    for ins in X.flatten_own(decl.body):
        if ins.tag == "field" and ins.name is not None and ins.value is None:
            v = getattr(obj, ins.name)
            if ins.optional and v is not None and hasattr(v, "__len__") and len(v) == 0:
                return False
            if hasattr(v, "_byte_size") and not roundtrip_domain(P, P.decls[type(v).__qualname__], v):
                return False
        elif ins.tag == "array":
            v = getattr(obj, ins.name)
            if ins.optional and v is not None and len(v) == 0:
                return False
            if ins.length is None and any(isinstance(e, str) and len(e) == 0 for e in (v or ())):
                return False        # an empty element of a read-to-end array is not representable
            for e in (v or ()):
                if hasattr(e, "_byte_size") and not roundtrip_domain(P, P.decls[type(e).__qualname__], e):
                    return False
        elif ins.tag == "switch":
            cd = getattr(obj, ins.field + "_data")
            if cd is not None and not roundtrip_domain(P, P.decls[type(cd).__qualname__], cd):
                return False
    return True
