"""Bounded-exhaustive enumerator of small specifications (the "programs" quantifier of the
generated-code properties): all instruction sequences of length <= K over a template alphabet,
at top level, inside <chunked>, inside a <case>, inside a case of a chunked switch, and after an
own chunked section.  Includes explicitly spelled default booleans."""
import itertools
import os
import random

SUPPORT = """
  <enum name="E" type="char"><value name="A">0</value><value name="B">1</value><value name="None">2</value></enum>
  <enum name="B" type="byte"><value name="Zero">0</value><value name="Top">255</value></enum>
  <enum name="W" type="short"><value name="Lo">1</value><value name="Hi">300</value></enum>
  <struct name="S"><field name="p" type="char"/><field name="q" type="short"/></struct>
  <struct name="V"><field name="n" type="char"/><field name="t" type="string"/></struct>
  <struct name="C"><chunked><field name="a" type="string"/><break/><field name="b" type="char"/></chunked></struct>
"""

# name -> (xml with {i}, needs_chunked)
TEMPLATES = {
    "char": ('<field name="f{i}" type="char"/>', False),
    "short": ('<field name="f{i}" type="short"/>', False),
    "int": ('<field name="f{i}" type="int"/>', False),
    "byte": ('<field name="f{i}" type="byte"/>', False),
    "bool": ('<field name="f{i}" type="bool"/>', False),
    "boolshort": ('<field name="f{i}" type="bool:short"/>', False),
    "enum": ('<field name="f{i}" type="E"/>', False),
    # same-width overrides are not no-ops: byte is raw 0..255, char is encoded 0..252
    "enumBchar": ('<field name="f{i}" type="B:char"/>', False),
    "enumEbyte": ('<field name="f{i}" type="E:byte"/>', False),
    "enumover": ('<field name="f{i}" type="W:three"/>', False),
    "str": ('<field name="f{i}" type="string"/>', False),
    "str3": ('<field name="f{i}" type="string" length="3"/>', False),
    "str4p": ('<field name="f{i}" type="string" length="4" padded="true"/>', False),
    "enc": ('<field name="f{i}" type="encoded_string"/>', False),
    "enc3": ('<field name="f{i}" type="encoded_string" length="3"/>', False),
    "enc4p": ('<field name="f{i}" type="encoded_string" length="4" padded="true"/>', False),
    "blob": ('<field name="f{i}" type="blob"/>', False),
    "structS": ('<field name="f{i}" type="S"/>', False),
    "structV": ('<field name="f{i}" type="V"/>', False),
    "structC": ('<field name="f{i}" type="C"/>', False),
    "hard": ('<field type="char">7</field>', False),
    "hardnamed": ('<field name="f{i}" type="short">300</field>', False),
    "hardstr": ('<field type="string" length="2">ab</field>', False),
    "lenstr": ('<length name="n{i}" type="char"/><field name="f{i}" type="string" length="n{i}"/>', False),
    "lenstroff": ('<length name="n{i}" type="short" offset="1"/><field name="f{i}" type="encoded_string" length="n{i}"/>', False),
    "lenstrneg": ('<length name="n{i}" type="char" offset="-2"/><field name="f{i}" type="string" length="n{i}"/>', False),
    "lenarr": ('<length name="n{i}" type="char"/><array name="f{i}" type="S" length="n{i}"/>', False),
    "lenarroff": ('<length name="n{i}" type="char" offset="-1"/><array name="f{i}" type="short" length="n{i}"/>', False),
    "arr2": ('<array name="f{i}" type="char" length="2"/>', False),
    "arrS": ('<array name="f{i}" type="S"/>', False),
    "arrshort": ('<array name="f{i}" type="short"/>', False),
    "arrE": ('<array name="f{i}" type="E"/>', False),
    "arrdel": ('<array name="f{i}" type="V" delimited="true"/>', True),
    "arrdelstr": ('<array name="f{i}" type="string" delimited="true"/>', True),
    "arrdel2nt": ('<array name="f{i}" type="V" length="2" delimited="true" trailing-delimiter="false"/>', True),
    "arrdelntnolen": ('<array name="f{i}" type="string" delimited="true" trailing-delimiter="false"/>', True),
    "arrdelntnolenV": ('<array name="f{i}" type="V" delimited="true" trailing-delimiter="false"/>', True),
    "lenarrdelnt": ('<length name="n{i}" type="char"/><array name="f{i}" type="string" length="n{i}" delimited="true" trailing-delimiter="false"/>', True),
    "arrstr2del": ('<array name="f{i}" type="string" length="2" delimited="true"/>', True),
    "three": ('<field name="f{i}" type="three"/>', False),
    "hardstrpad": ('<field type="string" length="2" padded="true">ab</field>', False),
    "hardencpad": ('<field name="f{i}" type="encoded_string" length="3" padded="true">abc</field>', False),
    "arrWover": ('<array name="f{i}" type="W:three" length="2"/>', False),
    "arrbool": ('<array name="f{i}" type="bool" length="2"/>', False),
    "optstruct": ('<field name="f{i}" type="S" optional="true"/>', False),
    "switchenumdef": ('<field name="k{i}" type="E"/><switch field="k{i}"><case value="B"><field name="x" type="char"/></case>'
                      '<case default="true"><field name="y" type="short" optional="true"/></case></switch>', False),
    # a <break> resets "an optional field was missing": what follows in the next chunk is written / required again
    "optbrkopt": ('<field name="a{i}" type="char" optional="true"/><break/>'
                  '<field name="f{i}" type="string" length="4" padded="true" optional="true"/>', True),
    "optbrkoptc": ('<field name="a{i}" type="char" optional="true"/><break/><field name="f{i}" type="short" optional="true"/>', True),
    "optbrkswitchopt": ('<field name="a{i}" type="short" optional="true"/><break/><field name="k{i}" type="char"/><switch field="k{i}">'
                        '<case value="1"><field name="y" type="char" optional="true"/></case></switch>'
                        '<field name="o{i}" type="short" optional="true"/>', True),
    "optbrkreq": ('<field name="a{i}" type="short" optional="true"/><break/><field name="f{i}" type="char"/>'
                  '<array name="g{i}" type="char" length="2"/>', True),
    "optlenstroff": ('<length name="n{i}" type="short" offset="2" optional="true"/>'
                     '<field name="f{i}" type="encoded_string" length="n{i}" optional="true"/>', False),
    "opthard": ('<field name="a{i}" type="char" optional="true"/><field name="f{i}" type="short" optional="true">7</field>', False),
    # optional fields on both sides of a switch boundary (the "missing optional" bookkeeping of the emitted serialize is
    # per method: the case-data class and the enclosing class each need their own)
    "optswitchopt": ('<field name="k{i}" type="char"/><field name="o{i}" type="short" optional="true"/><switch field="k{i}">'
                     '<case value="1"><field name="y" type="char" optional="true"/></case></switch>', False),
    "switchoptopt": ('<field name="k{i}" type="char"/><switch field="k{i}"><case value="1"><field name="y" type="char" optional="true"/>'
                     '</case></switch><field name="o{i}" type="short" optional="true"/>', False),
    "boolint": ('<field name="f{i}" type="bool:int"/>', False),
    "str1p": ('<field name="f{i}" type="string" length="1" padded="true"/>', False),
    "str0": ('<field name="f{i}" type="string" length="0"/><field name="g{i}" type="char"/>', False),
    "lenarrSneg": ('<length name="n{i}" type="char" offset="-1"/><array name="f{i}" type="S" length="n{i}"/>', False),
    "switchenumover": ('<field name="k{i}" type="W:three"/><switch field="k{i}"><case value="Hi"><field name="x" type="char"/></case>'
                       '<case value="7"><field name="y" type="byte"/></case></switch>', False),
    "switch0": ('<field name="k{i}" type="short"/><switch field="k{i}"><case value="5"><field name="x" type="char"/></case>'
                '<case value="0"><field name="z" type="three"/></case><case value="3"/></switch>', False),
    "empty": ('', False),          # an object without instructions (at top: an empty struct)
    "str0dummy": ('<field name="f{i}" type="string" length="0"/><dummy type="short">5</dummy>', False),
    "arrSF": ('<array name="f{i}" type="SF"/>', False),
    "lenarrbyte": ('<length name="n{i}" type="byte"/><array name="f{i}" type="char" length="n{i}"/>', False),
    "lenstrbyte": ('<length name="n{i}" type="byte" offset="1"/><field name="f{i}" type="string" length="n{i}"/>', False),
    "arrCB": ('<array name="f{i}" type="CB"/>', False),
    "optchar": ('<field name="f{i}" type="char" optional="true"/>', False),
    "optstr": ('<field name="f{i}" type="string" optional="true"/>', False),
    "optenum": ('<field name="f{i}" type="E" optional="true"/>', False),
    "optarr": ('<array name="f{i}" type="char" optional="true"/>', False),
    "optarrS": ('<array name="f{i}" type="S" length="2" optional="true"/>', False),
    "optlenstr": ('<length name="n{i}" type="char" optional="true"/><field name="f{i}" type="string" length="n{i}" optional="true"/>', False),
    "optlenbrk": ('<length name="n{i}" type="char" optional="true"/><break/><field name="f{i}" type="string" length="n{i}" optional="true"/>', True),
    "hardbool": ('<field name="f{i}" type="bool">true</field>', False),
    "hardboolun": ('<field type="bool">false</field>', False),
    "hardstrnamed": ('<field name="f{i}" type="string" length="3">abc</field>', False),
    "dummy": ('<dummy type="short">5</dummy>', False),
    "break": ('<break/>', True),
    "switchint": ('<field name="k{i}" type="char"/><switch field="k{i}"><case value="1"><field name="x" type="short"/></case>'
                  '<case value="2"/><case default="true"><field name="y" type="string"/></case></switch>', False),
    "switchenum": ('<field name="k{i}" type="E"/><switch field="k{i}"><case value="A"><field name="x" type="char"/></case>'
                   '<case value="None"><field name="z" type="S"/></case><case value="9"><field name="y" type="three"/></case></switch>', False),
    "switchdef0": ('<field name="k{i}" type="char"/><switch field="k{i}"><case value="1"><field name="x" type="short"/></case>'
                   '<case value="3"/><case default="true"/></switch>', False),
    # explicitly spelled defaults (C02: must not change the format)
    "char_x": ('<field name="f{i}" type="char" optional="false" padded="false"/>', False),
    "str4_x": ('<field name="f{i}" type="string" length="4" padded="False" optional="false"/>', False),
    "arr2_x": ('<array name="f{i}" type="char" length="2" optional="false" delimited="false" trailing-delimiter="true"/>', False),
    "arrS_x": ('<array name="f{i}" type="S" delimited="false"/>', False),
    "lenstr_x": ('<length name="n{i}" type="char" optional="false"/><field name="f{i}" type="string" length="n{i}"/>', False),
    "structSx": ('<field name="f{i}" type="SX"/>', False),
    "arrSX": ('<array name="f{i}" type="SX"/>', False),
    # read-to-end arrays of bounded elements that are not fixed-size (while loops whose termination rests
    # on the element's progress): plain, with an own <break>, with an own chunked section
    # zero-size structs as required fields (nothing is written, but None / a bad nested value must still be refused),
    # a zero-length array inside a fixed-size element, element widths that come from an override
    # a struct with its own chunked section, then a string: the mode the struct hands back decides how the string is
    # sanitised / where it is cut
    "structCstr": ('<field name="f{i}" type="C"/><field name="g{i}" type="string"/>', False),
    # padded strings whose length comes from a <length> field (nothing is ever padded, but reading still cuts at 0xFF),
    # boolean attributes spelled 0 (= false)
    "lenstrpad": ('<length name="n{i}" type="char"/><field name="f{i}" type="string" length="n{i}" padded="true"/>', False),
    "lenencpad": ('<length name="n{i}" type="char"/><field name="f{i}" type="encoded_string" length="n{i}" padded="true"/>', False),
    "str4_0": ('<field name="f{i}" type="string" length="4" padded="0" optional="0"/>', False),
    "bool_0": ('<field name="f{i}" type="bool" optional="0"/>', False),
    # an optional array followed by what is written unconditionally (a break and the next chunk, a dummy)
    "optarrbrk": ('<array name="f{i}" type="short" optional="true"/><break/><field name="g{i}" type="string"/>', True),
    "optarrdummy": ('<array name="f{i}" type="char" optional="true"/><dummy type="char">0</dummy>', False),
    "structZ0": ('<field name="f{i}" type="Z0"/>', False),
    "structZ1": ('<field name="f{i}" type="Z1"/>', False),
    "arrZA": ('<array name="f{i}" type="ZA"/>', False),
    "arrboolshort": ('<array name="f{i}" type="bool:short"/>', False),
    "arrBS": ('<array name="f{i}" type="BS"/>', False),
    "arrO": ('<array name="f{i}" type="O"/>', False),
    "arrC": ('<array name="f{i}" type="C"/>', False),
    "arrCO": ('<array name="f{i}" type="CO"/>', False),
}
SUPPORT += """
  <struct name="O"><field name="p" type="char"/><field name="o" type="short" optional="true"/></struct>
  <struct name="CO"><chunked><field name="c" type="char"/><field name="o" type="char" optional="true"/></chunked></struct>
  <struct name="CB"><chunked><field name="p" type="char"/><break/><field name="q" type="short"/></chunked></struct>
  <struct name="SF"><field name="p" type="char"/><field name="s" type="string" length="3" padded="true"/></struct>
  <struct name="SX"><field name="p" type="char" optional="false"/><array name="q" type="char" length="2" optional="false" delimited="false"/></struct>
  <struct name="Z0"></struct>
  <struct name="Z1"><field name="t" type="string" length="0"/></struct>
  <struct name="ZA"><field name="p" type="char"/><array name="z" type="short" length="0"/><field name="q" type="short"/></struct>
  <struct name="BS"><field name="p" type="char"/><field name="on" type="bool:short"/></struct>
"""

# the first-generation templates: enumerated exhaustively in pairs by the thorough tier (the later ones, added for specific
# interactions, are covered singly, in the sampled pairs and triples)
CORE = ["char", "short", "int", "byte", "bool", "boolshort", "enum", "enumover", "str", "str3", "str4p", "enc", "enc3", "enc4p",
        "blob", "structS", "structV", "structC", "hard", "hardnamed", "hardstr", "lenstr", "lenstroff", "lenstrneg", "lenarr",
        "lenarroff", "arr2", "arrS", "arrshort", "arrE", "arrdel", "arrdelstr", "arrdel2nt", "arrdelntnolen", "arrdelntnolenV",
        "lenarrdelnt", "optchar", "optstr", "optenum", "optarr", "optarrS", "optlenstr", "hardbool", "hardboolun", "hardstrnamed",
        "dummy", "break", "switchint", "switchenum", "switchdef0", "arrO", "arrCO", "optlenbrk", "three", "optstruct"]
POSITIONS = ["top", "chunked", "case", "chunkedcase", "afterchunked", "nestedchunked", "casechunked", "afterbreak"]


def body_xml(names, position):
    parts = []
    for i, n in enumerate(names):
        parts.append(TEMPLATES[n][0].replace("{i}", str(i)))
    seq = "".join(parts)
    if position == "top":
        return seq
    if position == "chunked":
        return f"<chunked>{seq}</chunked>"
    if position == "case":
        return f'<field name="sel" type="char"/><switch field="sel"><case value="1">{seq}</case></switch>'
    if position == "chunkedcase":
        return f'<chunked><field name="sel" type="char"/><switch field="sel"><case value="1">{seq}</case></switch></chunked>'
    if position == "afterchunked":
        return f'<chunked><field name="c0" type="string"/></chunked>{seq}'
    if position == "afterbreak":
        # after an own chunked section that ends with a <break>: unchunked, unsanitised again, and wire-unambiguous
        return f'<chunked><field name="c0" type="string"/><break/></chunked>{seq}'
    if position == "nestedchunked":
        return f'<chunked><field name="c0" type="string"/><break/><chunked>{seq}</chunked></chunked>'
    if position == "casechunked":
        return (f'<chunked><field name="sel" type="char"/><switch field="sel"><case value="1"><chunked>{seq}</chunked>'
                f'</case></switch></chunked>')
    raise KeyError(position)


def needs_chunked(names):
    return any(TEMPLATES[n][1] for n in names)


def enumerate_specs(K, positions=POSITIONS, templates=None):
    """yields (ident, body xml) for every sequence of length 1..K at every position"""
    tnames = sorted(templates or TEMPLATES)
    for k in range(1, K + 1):
        for names in itertools.product(tnames, repeat=k):
            for pos in positions:
                yield f"{pos}:{'+'.join(names)}", body_xml(names, pos)


def sample_specs(K, count, seed, positions=POSITIONS):
    rng = random.Random(seed)
    tnames = sorted(TEMPLATES)
    seen = set()
    out = []
    tries = 0
    while len(out) < count and tries < count * 20:
        tries += 1
        k = rng.randrange(1, K + 1)
        names = tuple(rng.choice(tnames) for _ in range(k))
        pos = rng.choice(positions)
        key = (names, pos)
        if key in seen:
            continue
        seen.add(key)
        out.append((f"{pos}:{'+'.join(names)}", body_xml(names, pos)))
    return out


def write_tree(root, bodies, packet_bodies=()):
    """bodies: list of (class name, body xml) -> one protocol tree at `root`"""
    os.makedirs(root, exist_ok=True)
    structs = "".join(f'<struct name="{n}">{b}</struct>\n' for n, b in bodies)
    with open(os.path.join(root, "protocol.xml"), "w") as f:
        f.write(f"<protocol>{SUPPORT}{structs}</protocol>\n")
    if packet_bodies:
        os.makedirs(os.path.join(root, "net", "client"), exist_ok=True)
        with open(os.path.join(root, "net", "protocol.xml"), "w") as f:
            f.write('<protocol><enum name="PacketFamily" type="byte"><value name="Fam">1</value></enum>'
                    '<enum name="PacketAction" type="byte"><value name="Act">1</value><value name="Act2">2</value></enum></protocol>')
        pk = "".join(f'<packet family="Fam" action="{a}">{b}</packet>' for a, b in packet_bodies)
        with open(os.path.join(root, "net", "client", "protocol.xml"), "w") as f:
            f.write(f"<protocol>{pk}</protocol>")
