"""Re-run every seeded change in /verif/seeded against the checks: apply the patch to /repo, run
the quick check of the property it targets, undo.  Writes /verif/seeded/RESULTS.md.
usage: python3-vt -m checks.seeded [name ...]"""
import json
import os
import subprocess
import sys
import time

VERIF = os.path.dirname(os.path.dirname(os.path.abspath(__file__)))
REPO = os.environ.get("VERIF_REPO", "/repo")


def sh(*a, **k):
    return subprocess.run(a, capture_output=True, text=True, **k)


def main():
    names = sys.argv[1:] or sorted(d for d in os.listdir(os.path.join(VERIF, "seeded"))
                                   if os.path.isdir(os.path.join(VERIF, "seeded", d)))
    if sh("git", "-C", REPO, "diff", "--quiet").returncode != 0:
        print("repository working tree is not clean; refusing to run")
        return 2
    rows = []
    for n in names:
        d = os.path.join(VERIF, "seeded", n)
        meta = json.load(open(os.path.join(d, "meta.json")))
        prop = meta["property"]
        r = sh("git", "-C", REPO, "apply", os.path.join(d, "patch.diff"))
        if r.returncode != 0:
            rows.append((n, prop, "patch does not apply", "", ""))
            write_rows(rows[-1:])
            continue
        try:
            t0 = time.time()
            p = sh(sys.executable, "-m", "checks", prop, cwd=VERIF)
            dt = time.time() - t0
            out = p.stdout
            vio = [l for l in out.splitlines() if l.startswith("VIOLATION")]
            first = next((l.strip() for l in out.splitlines() if l.strip().startswith("failed obligation") or
                          l.strip().startswith("spec ") or l.strip().startswith("failing") or l.strip().startswith("accepted")), "")
            rows.append((n, prop, f"exit {p.returncode}, {len(vio)} VIOLATION line(s)" +
                         (", with failing input" if any("no-failing-input-found" not in v for v in vio) else ""),
                         first[:160].replace("|", "/"), f"{dt:.0f} s"))
        finally:
            sh("git", "-C", REPO, "checkout", "--", ".")
            if REPO == "/repo":
                sh("git", "-C", VERIF, "checkout", "-q", "--", "evidence")
                for f in os.listdir(os.path.join(VERIF, "replays")):
                    if f.endswith(".json"):
                        os.unlink(os.path.join(VERIF, "replays", f))
        write_rows(rows[-1:])
        print(" | ".join(rows[-1]), flush=True)
    return 0 if all("exit 1" in r[2] for r in rows) else 1


def write_rows(rows):
    """merge rows into RESULTS.md (after every seed, under a lock: an interrupted or a second, parallel run - on its
    own worktree via VERIF_REPO - loses nothing)"""
    import fcntl
    path = os.path.join(VERIF, "seeded", "RESULTS.md")
    with open(path + ".lock", "w") as lock:
        fcntl.flock(lock, fcntl.LOCK_EX)
        merged = {}
        if os.path.exists(path):
            for line in open(path).read().splitlines()[2:]:
                cells = [c.strip() for c in line.strip().strip("|").split("|")]
                if len(cells) >= 5:
                    merged[cells[0]] = tuple(cells[:5])
        for row in rows:
            merged[row[0]] = row
        with open(path, "w") as f:
            f.write("| seeded change | property | quick check of that property | first reported line | time |\n|---|---|---|---|---|\n")
            for k in sorted(merged):
                f.write("| " + " | ".join(merged[k]) + " |\n")


if __name__ == "__main__":
    sys.exit(main())
