"""C14 - bounded stand-in (runtime-checked contract on the real ProtocolEnumMeta.__call__), under
both interpreters present.  Not a proof: the six lines delegate to CPython's EnumMeta.__call__ and
int.__new__, whose behaviour a VC could only assume."""
import json
import os
import shutil
import subprocess
import sys
import tempfile
import time

VERIF = os.path.dirname(os.path.dirname(os.path.abspath(__file__)))
sys.path.insert(0, VERIF)
from pyvc import repo                                   # noqa: E402
from checks.common import load_known                    # noqa: E402

INTERPRETERS = [sys.executable, "/venv/bin/python"]


def evaluate(tier, seed, budget=None):
    """the runtime contract of ProtocolEnumMeta.__call__ under every interpreter present -> (outs, failures) or an
    error string"""
    from pyvc.gen_verify import run_generator
    tmp = tempfile.mkdtemp(prefix="verif-c14-")
    try:
        gen = os.path.join(tmp, "out")
        rc, so, se = run_generator(os.path.join(VERIF, "specs", "realistic"), gen)
        if rc != 0:
            return "generator failed on the corpus: " + se[-300:]
        budget = budget or (3000 if tier == "quick" else 200000)
        outs = []
        for py in INTERPRETERS:
            if not os.path.exists(py):
                continue
            p = subprocess.run([py, os.path.join(VERIF, "checks", "c14_worker.py"), repo.REPO, gen, str(seed), str(budget)],
                               capture_output=True, text=True)
            if p.returncode != 0:
                return f"worker under {py} failed: {p.stderr[-500:]}"
            outs.append(json.loads(p.stdout.strip().splitlines()[-1]))
    finally:
        shutil.rmtree(tmp, ignore_errors=True)
    return outs, [dict(f, python=o["python"]) for o in outs for f in o["failures"]]


def run(tier, seed):
    t0 = time.time()
    r = evaluate(tier, seed)
    if isinstance(r, str):
        print("CHECKER-ERROR property=C14 " + r)
        return 3
    outs, _ = r
    failures = [dict(f, python=o["python"]) for o in outs for f in o["failures"]]
    ev = {"property_id": "C14", "tier": tier, "seed": seed, "level": "exploration",
          "coverage": {"evaluations": sum(o["evaluations"] for o in outs),
                       "distinct_nontrivial": sum(o["distinct"] for o in outs),
                       "rule": "runtime contract of ProtocolEnumMeta.__call__ (declared ordinal -> the declared member object; any "
                               "other int -> instance, ==, hash, int(), name Unrecognized(n), value; members unchanged) on 4 "
                               "hand-written enums + every enum the generator emits for the realistic corpus x integers "
                               "-300..999, EO range boundaries, 2^31, 2^63, 10^30, seeded random ints, and integers that are not plain ints (the enum's own "
                               "members, bools, members of other enums, int-subclass instances, Unrecognized instances fed back), "
                               "shuffled construction order; distinct = distinct (enum, integer) pairs; per interpreter",
                       "samples": [s for o in outs for s in o["samples"]][:8],
                       "interpreters": [o["python"] for o in outs], "enums": [o["enums"] for o in outs],
                       "bounded": True},
          "assumptions": ["bounded stand-in, not a proof: behaviour delegated to CPython's EnumMeta / int.__new__ is observed, "
                          "not verified; only the interpreters installed here (3.11, 3.12) are covered"],
          "wall_s": round(time.time() - t0, 2), "violations": len(failures)}
    with open(os.path.join(VERIF, "evidence", "C14.json"), "w") as f:
        json.dump(ev, f, indent=1, default=str)
    print(f"C14: {ev['coverage']['evaluations']} contract evaluations on {ev['coverage']['enums']} enums under "
          f"{ev['coverage']['interpreters']}, {len(failures)} failures (bounded stand-in)")
    if failures:
        path = os.path.join(VERIF, "replays", "C14-0.json")
        os.makedirs(os.path.dirname(path), exist_ok=True)
        with open(path, "w") as f:
            json.dump({"property": "C14", "obligation": "ProtocolEnumMeta.__call__:runtime-contract",
                       "custom_replay": "checks.c14", "inputs": failures[0], "all": failures[:6]}, f, indent=1, default=str)
        print(f"  failing input on the real code: {failures[0]}")
        print(f"VIOLATION property=C14 replay={path}")
        return 1
    return 0


def replay(rp):
    return run("quick", 0)
