"""C17 - the generator rejects ill-formed specifications.
Bounded part (placement 'wherever it occurs'): the real generator on (catalogue edit x position x
file) and on every enumerated spec that xmlsem finds ill-formed; post: raises, writes no class for it.
Proved part (leaf guards): see checks/props.py C17L (contracts on the generator's validation
functions) - merged into this check's evidence when present."""
import json
import multiprocessing as mp
import os
import shutil
import subprocess
import sys
import tempfile
import time

VERIF = os.path.dirname(os.path.dirname(os.path.abspath(__file__)))
sys.path.insert(0, VERIF)
from pyvc import repo                                            # noqa: E402
from xmlsem import ir as X, specgen as G, wellformed as W, catalogue as K     # noqa: E402
from checks.common import load_known                             # noqa: E402

GEN_SNIPPET = ("import sys; sys.path.insert(0, %r)\nfrom pathlib import Path\n"
               "from protocol_code_generator.generate.code_generator import ProtocolCodeGenerator\n"
               "ProtocolCodeGenerator(Path(sys.argv[1])).generate(Path(sys.argv[2]))\n")


def _one(args):
    rule, where, docs, offending, repo_root = args
    tmp = tempfile.mkdtemp(prefix="verif-c17-")
    try:
        spec_dir = os.path.join(tmp, "spec")
        for rel, xml in docs.items():
            d = os.path.join(spec_dir, rel)
            os.makedirs(d, exist_ok=True)
            with open(os.path.join(d, "protocol.xml"), "w") as f:
                f.write(xml)
        out = os.path.join(tmp, "out")
        p = subprocess.run([sys.executable, "-c", GEN_SNIPPET % repo_root, spec_dir, out], capture_output=True, text=True)
        written = []
        if offending:
            for d, _, fs in os.walk(out):
                for f in fs:
                    if f == offending:
                        written.append(os.path.relpath(os.path.join(d, f), out))
        err = p.stderr.strip().splitlines()[-1] if p.stderr.strip() else ""
        return rule, where, p.returncode, err[:200], written
    finally:
        shutil.rmtree(tmp, ignore_errors=True)


FLAGS = ("chunked_reading_enabled", "reached_optional_field", "reached_dummy")
FLAG_WRITERS = {
    # the only functions allowed to assign a context flag: each is under a contract whose `modifies` names it
    "ObjectGenerationContext.__init__", "ObjectCodeGenerator._generate_field", "ObjectCodeGenerator._generate_array",
    "ObjectCodeGenerator._generate_length", "ObjectCodeGenerator._generate_dummy", "ObjectCodeGenerator._generate_switch",
    "ObjectCodeGenerator._generate_chunked", "ObjectCodeGenerator._generate_break",
}


def flag_frame_scan(repo_root):
    """the frame assumption behind the placement contracts, discharged syntactically on every run: the calls
    those contracts treat as opaque (string building, builders, XML accessors, FieldCodeGenerator) never
    write one of the three context flags.  Every assignment / deletion of an attribute with one of the flag
    names anywhere under protocol_code_generator must sit in a function of FLAG_WRITERS, and nothing in the
    generator reaches attributes reflectively (setattr / __dict__ / vars / __setattr__ / exec / eval)."""
    import ast as A
    bad = []
    scanned = 0
    root = os.path.join(repo_root, "protocol_code_generator")
    for d, _, fs in os.walk(root):
        for fn in fs:
            if not fn.endswith(".py"):
                continue
            path = os.path.join(d, fn)
            tree = A.parse(open(path).read())
            scanned += 1

            def visit(node, scope):
                for ch in A.iter_child_nodes(node):
                    sc = scope
                    if isinstance(ch, (A.FunctionDef, A.AsyncFunctionDef, A.ClassDef)):
                        sc = scope + [ch.name]
                    tg = []
                    if isinstance(ch, A.Assign):
                        tg = ch.targets
                    elif isinstance(ch, (A.AugAssign, A.AnnAssign)):
                        tg = [ch.target]
                    elif isinstance(ch, A.Delete):
                        tg = ch.targets
                    elif isinstance(ch, (A.For, A.comprehension)):
                        tg = [ch.target]
                    elif isinstance(ch, A.NamedExpr):
                        tg = [ch.target]
                    elif isinstance(ch, A.With):
                        tg = [i.optional_vars for i in ch.items if i.optional_vars is not None]
                    for t in tg:
                        for x in A.walk(t):
                            if isinstance(x, A.Attribute) and x.attr in FLAGS and ".".join(scope[-2:]) not in FLAG_WRITERS:
                                bad.append(f"{os.path.relpath(path, repo_root)}:{ch.lineno} assigns .{x.attr} in {'.'.join(scope) or '<module>'}")
                    if isinstance(ch, A.Call):
                        f = ch.func
                        nm = f.id if isinstance(f, A.Name) else (f.attr if isinstance(f, A.Attribute) else None)
                        if nm in ("setattr", "delattr", "vars", "exec", "eval", "__setattr__", "__delattr__"):
                            bad.append(f"{os.path.relpath(path, repo_root)}:{ch.lineno} reflective {nm}() in {'.'.join(scope) or '<module>'}")
                    if isinstance(ch, A.Attribute) and ch.attr == "__dict__":
                        bad.append(f"{os.path.relpath(path, repo_root)}:{ch.lineno} __dict__ access in {'.'.join(scope) or '<module>'}")
                    visit(ch, sc)
            visit(tree, [])
    return bad, scanned


def leaf_guards(tier, seed):
    """the proved part: contracts on the generator's validation functions (E1)"""
    from checks.props import PROPS
    from checks.common import PropertyCheck
    pc = PropertyCheck("C17", PROPS["C17L"], tier, seed)
    rc = pc.run(write_evidence=False, label="leaf guards (proved)")
    return rc, {"obligations": len(getattr(pc, "obls", [])), "discharged": getattr(pc, "discharged", 0),
                "functions_under_contract": [f["function"] for f in getattr(pc, "functions", [])],
                "functions_outside_fragment": getattr(pc, "outside", []),
                "trusted": ["FieldCodeGenerator._get_type (type resolution: pure, result kind/boundedness as ghost fields)",
                            "try_parse_int (CPython int(str): uninterpreted graph)"]}


def run(tier, seed):
    t0 = time.time()
    lrc, leaf = leaf_guards(tier, seed)
    if lrc == 3:
        return 3
    frame_bad, frame_files = flag_frame_scan(repo.REPO)
    leaf["flag_frame_scan"] = {"files_scanned": frame_files, "violations": frame_bad,
                               "what": "no function outside the contracted flag writers assigns chunked_reading_enabled / "
                                       "reached_optional_field / reached_dummy; no reflective attribute access in the generator"}
    if frame_files == 0:
        print("CHECKER-ERROR property=C17 frame scan found no generator sources")
        return 3
    tasks = []
    oracle_disagreements = []
    # (a) the explicit catalogue at every position
    for rule, pos, body in K.body_cases():
        doc = "<protocol>" + G.SUPPORT + f'<struct name="T">{body}</struct></protocol>'
        try:
            sp = X.load_strings({"": doc})
            ok, why = W.well_formed(sp)
        except X.SpecError as e:
            ok, why = False, str(e)
        if ok:
            oracle_disagreements.append((rule, pos))
            continue
        tasks.append((rule, pos, {"": doc}, "t.py", repo.REPO))
        # the same violation in another file of the tree (a packet body)
        if pos == "top" or tier == "thorough":
            docs = {"": "<protocol>" + G.SUPPORT + "</protocol>", "net": K.NET,
                    "net/client": f'<protocol><packet family="Fam" action="Act">{body}</packet></protocol>'}
            tasks.append((rule, pos + "/packet-file", docs, "fam_act_client_packet.py", repo.REPO))
    for rule, docs in K.tree_cases():
        try:
            sp = X.load_strings(docs)
            ok, why = W.well_formed(sp)
        except X.SpecError as e:
            ok, why = False, str(e)
        if ok:
            oracle_disagreements.append((rule, "tree"))
            continue
        tasks.append((rule, "tree", docs, None, repo.REPO))
    n_catalogue = len(tasks)
    # (b) every enumerated instruction sequence that xmlsem finds ill-formed
    from checks import e2
    specs = e2.select_specs(tier, seed)
    for ident, body in specs:
        k, why = e2.classify(body)
        if k == "ill":
            doc = "<protocol>" + G.SUPPORT + f'<struct name="T">{body}</struct></protocol>'
            tasks.append(("enumerated:" + why[:40], ident, {"": doc}, "t.py", repo.REPO))
    if oracle_disagreements:
        print(f"CHECKER-ERROR property=C17 catalogue entries that xmlsem accepts (oracle/catalogue mismatch): {oracle_disagreements[:5]}")
        return 3
    ctx = mp.get_context("fork")
    with ctx.Pool(min(16, os.cpu_count() or 1)) as pool:
        outs = pool.map(_one, tasks, chunksize=2)
    failures = []
    rules = set()
    samples = []
    for (rule, where, rc, err, written), task in zip(outs, tasks):
        rules.add(rule)
        if rc == 0:
            failures.append({"kind": "ill-formed-spec-accepted", "rule": rule, "where": where, "docs": task[2]})
        elif written:
            failures.append({"kind": "class-file-written-for-rejected-spec", "rule": rule, "where": where,
                             "files": written, "docs": task[2]})
        elif len(samples) < 10 and len(rules) % 9 == 1:
            samples.append({"rule": rule, "where": where, "generator_error": err})
    known = load_known("C17")
    known_lines = []
    real = []
    for f in failures:
        hit = [e for e in known if e.get("status") == "finding" and e.get("rule") == f["rule"]]
        if hit:
            line = f"KNOWN-FINDING: property=C17 {hit[0]['what']}"
            if line not in known_lines:
                known_lines.append(line)
        else:
            real.append(f)
    failures = real
    ev = {"property_id": "C17", "tier": tier, "seed": seed, "level": "exploration",
          "coverage": {"evaluations": len(tasks), "distinct_nontrivial": len({(t[0], t[1]) for t in tasks}),
                       "rule": "real generator (fresh interpreter each) on: the rule-violation catalogue of the statement "
                               f"({len(K.BODY) + len(K.NEEDS_NO_CHUNK)} instruction-level edits x positions top / chunked / case / "
                               "case-in-chunked / after-chunked, plus the same edit inside a packet of another file; "
                               f"{len(list(K.tree_cases()))} whole-tree edits: type tables, enums, packets, files) and every "
                               "enumerated instruction sequence that the independent rule reader (xmlsem.wellformed) finds "
                               "ill-formed; required: non-zero exit and no module written for the offending class; "
                               "distinct = distinct (rule, position) pairs",
                       "samples": samples or [{"note": "none"}], "catalogue_cases": n_catalogue,
                       "enumerated_ill_formed": len(tasks) - n_catalogue, "rules_exercised": len(rules),
                       "known_findings_reported": known_lines, "bounded": True,
                       "leaf_guards_proved": leaf},
          "assumptions": ["bounded stand-in for 'wherever it occurs' (positions enumerated, not all nestings); xmlsem.wellformed "
                          "is the oracle of ill-formedness (trusted specification)"],
          "wall_s": round(time.time() - t0, 2), "violations": len(failures)}
    with open(os.path.join(VERIF, "evidence", "C17.json"), "w") as f:
        json.dump(ev, f, indent=1, default=str)
    for line in known_lines:
        print(line)
    print(f"C17: {len(tasks)} ill-formed specifications ({n_catalogue} catalogue x position, {len(tasks) - n_catalogue} enumerated), "
          f"{len(rules)} rules, {len(failures)} accepted by the generator (bounded stand-in), {round(time.time() - t0, 1)} s")
    if frame_bad and not failures:
        # the proof's frame assumption no longer holds and the bounded runs show no accepted ill-formed spec
        os.makedirs(os.path.join(VERIF, "replays"), exist_ok=True)
        path = os.path.join(VERIF, "replays", "C17-frame.json")
        with open(path, "w") as fh:
            json.dump({"property": "C17", "obligation": "flag-frame-scan", "custom_replay": "checks.c17",
                       "inputs": None, "no_failing_input_found": True, "verifier": {"output": frame_bad}}, fh, indent=1)
        for b in frame_bad[:6]:
            print(f"  failed obligation flag-frame-scan: {b}")
        print(f"VIOLATION property=C17 replay={path} no-failing-input-found")
        return 1
    if failures:
        for b in frame_bad[:6]:
            print(f"  failed obligation flag-frame-scan: {b}")
        os.makedirs(os.path.join(VERIF, "replays"), exist_ok=True)
        for n, f in enumerate(failures[:6]):
            path = os.path.join(VERIF, "replays", f"C17-{n}.json")
            with open(path, "w") as fh:
                json.dump({"property": "C17", "obligation": f"generator-rejects:{f['rule']}@{f['where']}",
                           "custom_replay": "checks.c17", "inputs": f}, fh, indent=1)
            print(f"  accepted although ill-formed: rule {f['rule']} at {f['where']}: {json.dumps(f['docs'])[:300]}")
            print(f"VIOLATION property=C17 replay={path}")
        return 1
    return lrc


def replay(rp):
    if rp.get("obligation") == "flag-frame-scan":
        bad, n = flag_frame_scan(repo.REPO)
        print(f"flag frame scan over {n} files: {bad}")
        return 1 if bad else 0
    f = rp["inputs"]
    rule, where, rc, err, written = _one((f["rule"], f["where"], f["docs"], "t.py", repo.REPO))
    print(f"generator exit code {rc} ({err}); files written for the offending class: {written}")
    return 1 if rc == 0 or written else 0
