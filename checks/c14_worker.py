"""C14 worker: runs under whichever interpreter invokes it (stdlib only).  Evaluates the runtime
contract of ProtocolEnumMeta.__call__ on hand-written and generated enums.
usage: c14_worker.py <repo> <generated_dir or -> <seed> <budget>"""
import importlib
import json
import os
import random
import sys
import types


def load(repo, gen):
    for k in [k for k in sys.modules if k == "eolib" or k.startswith("eolib.")]:
        del sys.modules[k]
    src = os.path.join(repo, "src", "eolib")
    for name, path in (("eolib", src), ("eolib.protocol", os.path.join(src, "protocol")),
                       ("eolib.data", os.path.join(src, "data"))):
        m = types.ModuleType(name)
        m.__path__ = [path]
        sys.modules[name] = m
    if gen != "-":
        m = types.ModuleType("eolib.protocol._generated")
        m.__path__ = [gen]
        sys.modules["eolib.protocol._generated"] = m
    return importlib.import_module("eolib.protocol.protocol_enum_meta").ProtocolEnumMeta


def contract(E, n, members_before, names_before):
    """the postcondition of E(n) for a plain integer n (C14's statement, clause by clause)"""
    fails = []
    try:
        x = E(n)
    except Exception as e:
        return ["construction raised " + repr(e)]
    declared = {int(m): m for m in members_before}
    if n in declared:
        if x is not declared[n]:
            fails.append("declared ordinal does not yield the declared member object")
        if E(n) is not x:
            fails.append("declared ordinal yields different objects")
    else:
        if not isinstance(x, E):
            fails.append("not an instance of the enum type")
        if not (x == n and n == x):
            fails.append("does not compare equal to the integer")
        if hash(x) != hash(n):
            fails.append("hash differs from the integer's")
        if int(x) != n:
            fails.append("int() does not give the integer back")
        if getattr(x, "name", None) != f"Unrecognized({int(n)})":
            fails.append(f"name is {getattr(x, 'name', None)!r}")
        if getattr(x, "value", None) != n:
            fails.append("value differs")
        if x in members_before and not any(x is m for m in members_before):
            pass
    if list(E) != members_before or list(E.__members__) != names_before:
        fails.append("declared members changed")
    try:
        isin = n in E            # 3.12+: value membership; earlier versions raise TypeError for non-members
    except TypeError:
        isin = None
    if type(n) is int and isin is not None and isin != (n in declared):
        fails.append("membership of the integer in the enum changed (unrecognized value registered as a member)")
    if len(E) != len(members_before):
        fails.append("len(enum) changed")
    return fails


def main():
    repo, gen, seed, budget = sys.argv[1], sys.argv[2], int(sys.argv[3]), int(sys.argv[4])
    Meta = load(repo, gen)
    from enum import IntEnum

    class Direction(IntEnum, metaclass=Meta):
        DOWN = 0
        LEFT = 1
        UP = 2
        RIGHT = 3

    class Sparse(IntEnum, metaclass=Meta):
        None_ = 0
        A = 7
        BIG = 64008
        HUGE = 16194276

    class Single(IntEnum, metaclass=Meta):
        ONLY = 253

    class Empty(IntEnum, metaclass=Meta):
        pass

    class Neg(IntEnum, metaclass=Meta):
        MINUS = -1
        ZERO = 0
    enums = [Direction, Sparse, Single, Neg]
    if gen != "-":
        for root, _, files in os.walk(gen):
            for f in sorted(files):
                if f.endswith(".py") and f != "__init__.py":
                    rel = os.path.relpath(os.path.join(root, f), gen)[:-3].replace(os.sep, ".")
                    try:
                        mod = importlib.import_module("eolib.protocol._generated." + rel)
                    except Exception:
                        continue
                    for v in vars(mod).values():
                        if isinstance(v, type) and issubclass(v, IntEnum) and type(v) is Meta and v.__module__ == mod.__name__:
                            enums.append(v)
    rng = random.Random(seed)
    base = list(range(-300, 1000)) + [252, 253, 254, 255, 256, 64008, 64009, 64010, 16194276, 16194277, 4097152080,
                                      4097152081, 2 ** 31 - 1, 2 ** 31, 2 ** 31 + 1, 2 ** 63 - 1, 2 ** 63, 2 ** 63 + 1,
                                      -2 ** 63, 10 ** 30]
    evals = 0
    failures = []
    distinct = set()
    samples = []
    for E in enums:
        members = list(E)
        names = list(E.__members__)
        ints = list(base)
        ints += [rng.randrange(-2 ** 70, 2 ** 70) for _ in range(budget // 10)]
        ints += [rng.randrange(0, 70000) for _ in range(budget)]
        rng.shuffle(ints)                           # any order of constructions
        for n in ints:
            evals += 1
            distinct.add((E.__name__, n))
            f = contract(E, n, members, names)
            if f:
                failures.append({"enum": E.__qualname__, "value": n, "failed": f})
                if len(failures) > 5:
                    break
        # integers that are not plain ints: the enum's own members (the constructor must hand back that very member), bools,
        # members of another enum, instances of an int subclass, earlier Unrecognized instances fed back in
        class MyInt(int):
            pass
        other = [m for O in enums[:4] if O is not E for m in O]
        odd = list(members) + [True, False] + other + [MyInt(k) for k in (0, 1, 7, 253, 999)] + [E(k) for k in (998, -7, 64009)]
        rng.shuffle(odd)
        for n in odd:
            evals += 1
            f = contract(E, n, members, names)
            if f:
                failures.append({"enum": E.__qualname__, "value": repr(n), "value_type": type(n).__name__, "failed": f})
                if len(failures) > 5:
                    break
        if len(samples) < 6:
            samples.append({"enum": E.__qualname__, "members": [m.name for m in members][:6],
                            "E(%d)" % ints[0]: repr(E(ints[0]))})
    print(json.dumps({"python": sys.version.split()[0], "enums": len(enums), "evaluations": evals,
                      "distinct": len(distinct), "failures": failures, "samples": samples}))


if __name__ == "__main__":
    main()
