"""MANIFEST.setup_cmd: offline sanity of the tool chain; byte-compiles /verif."""
import compileall
import os
import shutil
import sys

VERIF = os.path.dirname(os.path.dirname(os.path.abspath(__file__)))


def main():
    import z3
    ok = True
    print("z3 python", z3.get_version_string())
    for tool in ("/usr/bin/cvc5", "/usr/bin/z3"):
        print(tool, "present" if os.path.exists(tool) else "MISSING (only used for unknowns / thorough tier)")
    ok &= compileall.compile_dir(os.path.join(VERIF, "pyvc"), quiet=1)
    ok &= compileall.compile_dir(os.path.join(VERIF, "checks"), quiet=1)
    ok &= compileall.compile_dir(os.path.join(VERIF, "contracts"), quiet=1)
    sys.path.insert(0, VERIF)
    from xmlsem import anchors
    bad = anchors.check()
    print("xmlsem anchor vectors:", "ok" if not bad else bad)
    ok &= not bad
    os.makedirs(os.path.join(VERIF, "evidence"), exist_ok=True)
    os.makedirs(os.path.join(VERIF, "replays"), exist_ok=True)
    sys.exit(0 if ok else 1)


if __name__ == "__main__":
    main()
