"""C18 helper, run in a fresh interpreter: run /repo's generator with an optionally shuffled
directory enumeration.  usage: c18_gen.py <repo> <spec_dir> <out_dir> <walk_seed|->"""
import os
import random
import sys
from pathlib import Path

repo, spec, out, wseed = sys.argv[1:5]
sys.path.insert(0, repo)
if wseed != "-":
    # "asc" / "desc": the two extreme enumeration orders (every pair of sibling directories is visited in both orders
    # across the two), otherwise a seeded shuffle
    rng = random.Random(int(wseed)) if wseed not in ("asc", "desc") else None
    real_walk = os.walk

    def shuffled_walk(top, *a, **k):
        """the OS may enumerate directories and files in any order"""
        entries = list(real_walk(top, *a, **k))
        by_root = {}
        for root, dirs, files in entries:
            by_root[root] = (list(dirs), list(files))
        out_list = []

        def rec(root):
            dirs, files = by_root[root]
            if rng is None:
                dirs.sort(reverse=(wseed == "desc"))
                files.sort(reverse=(wseed == "desc"))
            else:
                rng.shuffle(dirs)
                rng.shuffle(files)
            out_list.append((root, dirs, files))
            for d in dirs:
                rec(os.path.join(root, d))
        rec(entries[0][0])
        return iter(out_list)
    os.walk = shuffled_walk
from protocol_code_generator.generate.code_generator import ProtocolCodeGenerator
ProtocolCodeGenerator(Path(spec)).generate(Path(out))
