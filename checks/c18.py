"""C18 - bounded stand-in: generation succeeds on valid trees, is a pure function of the XML
(hash seeds x directory enumeration orders x repeated / pre-populated runs give byte-identical
files) and yields an importable package exporting every declared type.  The functions carrying
this (set iteration, sorting, list surgery during iteration, os.walk, file writes) are outside the
fragment of the VC generator, so nothing here is counted as proved."""
import hashlib
import json
import os
import random
import shutil
import subprocess
import sys
import tempfile
import time

VERIF = os.path.dirname(os.path.dirname(os.path.abspath(__file__)))
sys.path.insert(0, VERIF)
from pyvc import repo                                   # noqa: E402
from xmlsem import ir as X, specgen as G, wellformed as W   # noqa: E402


def tree_digest(root):
    h = {}
    for d, _, fs in os.walk(root):
        for f in fs:
            p = os.path.join(d, f)
            with open(p, "rb") as fh:
                h[os.path.relpath(p, root)] = hashlib.sha256(fh.read()).hexdigest()
    return h


def gen(spec, out, hashseed, walkseed, py=sys.executable):
    env = dict(os.environ, PYTHONHASHSEED=str(hashseed))
    p = subprocess.run([py, os.path.join(VERIF, "checks", "c18_gen.py"), repo.REPO, spec, out, str(walkseed)],
                       capture_output=True, text=True, env=env)
    return p.returncode, p.stderr


def make_trees(tmp, tier, seed):
    """valid spec trees: the realistic corpus, permuted on-disk copies of it, and multi-file trees
    assembled from enumerated bodies (struct in the root file, packets referencing it)"""
    # crossref: type references in every direction between files (root -> subdirectory, sibling <-> sibling,
    # deep -> shallow, from nested case classes, with underlying-type overrides, from packets)
    trees = [("realistic", os.path.join(VERIF, "specs", "realistic")), ("crossref", os.path.join(VERIF, "specs", "crossref")),
             # siblings: types used with and without an underlying-type override from sibling directories only (no root
             # file resolves them first), so the resolution order follows the directory enumeration order
             ("siblings", os.path.join(VERIF, "specs", "siblings")),
             # gaps: directories without a protocol.xml of their own between the root and the files that declare types
             ("gaps", os.path.join(VERIF, "specs", "gaps"))]
    rng = random.Random(seed)
    src = trees[0][1]
    files = []
    for d, _, fs in os.walk(src):
        for f in fs:
            files.append(os.path.relpath(os.path.join(d, f), src))
    for k in range(2 if tier == "quick" else 6):
        dst = os.path.join(tmp, f"perm{k}")
        order = list(files)
        rng.shuffle(order)                      # different on-disk creation order
        for rel in order:
            os.makedirs(os.path.dirname(os.path.join(dst, rel)), exist_ok=True)
            shutil.copyfile(os.path.join(src, rel), os.path.join(dst, rel))
        trees.append((f"realistic-creation-order-{k}", dst))
    bodies = [(i, b) for i, b in G.sample_specs(2, 60 if tier == "quick" else 400, seed)]
    ok = []
    for ident, body in bodies:
        doc = "<protocol>" + G.SUPPORT + f'<struct name="T">{body}</struct></protocol>'
        try:
            sp = X.load_strings({"": doc})
            if W.well_formed(sp)[0] and not W.degenerate(sp):
                ok.append((ident, body))
        except X.SpecError:
            pass
    for k in range(0, len(ok), 10):
        chunk = ok[k:k + 10]
        dst = os.path.join(tmp, f"enum{k}")
        G.write_tree(dst, [(f"T{j}", b) for j, (_, b) in enumerate(chunk)],
                     packet_bodies=[("Act", chunk[0][1]), ("Act2", '<field name="t" type="T0"/>')])
        trees.append((f"enumerated-{k}", dst))
    return trees


RELATIVIZE_SNIPPET = r"""
import importlib.util, itertools, json, sys
sys.path.insert(0, sys.argv[1])
from protocol_code_generator.generate.code_block import Import
names = ["server", "server_settings", "settings", "map", "map_bounds", "maps", "net", "network", "client", "client_info",
         "pub", "pub_version", "item", "a", "net_server", "packet_family"]
dirs = ["", "map", "net", "net.client", "net.server", "pub", "pub.server", "net.server.deep"]
base = "eolib.protocol._generated"
bad = []
n = 0
for d in dirs:
    pkg = base + ("." + d if d else "")
    targets = [base + ("." + d2 if d2 else "") + "." + nm for d2 in dirs for nm in names]
    targets += ["eolib.data.eo_writer", "eolib.protocol.serialization_error", "eolib.protocol.net.packet", "enum", "typing",
                "collections.abc", "__future__"]
    for t in targets:
        n += 1
        line = Import("X", t).relativize(pkg)
        frm = line.split()[1]
        try:
            resolved = importlib.util.resolve_name(frm, pkg) if frm.startswith(".") else frm
        except Exception as e:
            resolved = "error: " + repr(e)
        if resolved != t or not line.endswith(" import X"):
            bad.append({"package": pkg, "target": t, "emitted": line, "resolves_to": resolved})
print(json.dumps({"checked": n, "bad": bad[:8]}))
"""


def relativize_contract():
    """runtime contract of Import.relativize: the emitted relative import, resolved by Python's own
    rules from the importing package, is the absolute module it was asked for (adversarial names:
    modules whose names start with a directory name)"""
    p = subprocess.run([sys.executable, "-c", RELATIVIZE_SNIPPET, repo.REPO], capture_output=True, text=True)
    try:
        return json.loads(p.stdout.strip().splitlines()[-1])
    except Exception:
        return {"checked": 0, "bad": [{"error": p.stderr[-400:]}]}


def run(tier, seed):
    t0 = time.time()
    tmp = tempfile.mkdtemp(prefix="verif-c18-")
    failures = []
    evals = 0
    distinct = set()
    samples = []
    rel = relativize_contract()
    evals += rel["checked"]
    if rel["bad"]:
        failures.append({"kind": "relative-import-resolves-to-the-wrong-module", "cases": rel["bad"][:4]})
    else:
        samples.append({"Import.relativize": f"{rel['checked']} (package, target) pairs resolve to the requested module"})
        distinct.add(("relativize", rel["checked"]))
    try:
        trees = make_trees(tmp, tier, seed)
        hashseeds = [0, 1, 2] if tier == "quick" else [0, 1, 2, 3, 5, 8, 13, 21]
        walkseeds = ["-", "asc", "desc", 1] if tier == "quick" else ["-", "asc", "desc", 1, 2, 3, 4, 5]
        pys = [sys.executable] + (["/venv/bin/python"] if os.path.exists("/venv/bin/python") else [])
        for tname, spec in trees:
            base = None
            n = 0
            for hs in hashseeds:
                for ws in walkseeds:
                    if tier == "quick" and not (hs == hashseeds[0] or ws == "-"):
                        continue
                    py = pys[n % len(pys)]
                    out = os.path.join(tmp, "out", f"{tname}-{hs}-{ws}")
                    rc, err = gen(spec, out, hs, ws, py)
                    evals += 1
                    distinct.add((tname, hs, str(ws), py))
                    n += 1
                    if rc != 0:
                        failures.append({"kind": "generator-fails-on-valid-tree", "tree": tname, "hashseed": hs,
                                         "walkseed": ws, "error": err.strip().splitlines()[-1] if err.strip() else ""})
                        break
                    dg = tree_digest(out)
                    if base is None:
                        base = dg
                        base_cfg = (hs, ws)
                        keep = out
                    elif dg != base:
                        diff = sorted(k for k in set(dg) | set(base) if dg.get(k) != base.get(k))
                        failures.append({"kind": "output-differs", "tree": tname, "between": [list(base_cfg), [hs, ws]],
                                         "files": diff[:6]})
                    if out != keep:
                        shutil.rmtree(out, ignore_errors=True)
                if failures:
                    break
            if failures:
                break
            # repeated run into the pre-populated directory
            rc, err = gen(spec, keep, 4, 7)
            evals += 1
            distinct.add((tname, "prepopulated"))
            if rc != 0 or tree_digest(keep) != base:
                failures.append({"kind": "pre-populated-run-differs", "tree": tname})
                break
            # ... and into a directory whose files of the same names are LONGER and different (an earlier revision of
            # the specification) plus a stale module that no longer exists
            stale = os.path.join(tmp, "out", f"{tname}-stale")
            shutil.copytree(keep, stale)
            for d, _, fs in os.walk(stale):
                for fn in fs:
                    if fn.endswith(".py"):
                        with open(os.path.join(d, fn), "a", encoding="utf-8") as fh:
                            fh.write("\n\nclass StaleLeftover:\n    pass\n" + "# stale\n" * 40)
            rc, err = gen(spec, stale, 5, 3)
            evals += 1
            distinct.add((tname, "prepopulated-with-longer-files"))
            dg = tree_digest(stale) if rc == 0 else None
            if dg != base:
                diff = sorted(k for k in set(dg or {}) | set(base) if (dg or {}).get(k) != base.get(k))
                failures.append({"kind": "run-into-a-directory-with-longer-files-differs", "tree": tname, "files": diff[:6],
                                 "error": err.strip().splitlines()[-1] if rc != 0 and err.strip() else ""})
                shutil.rmtree(stale, ignore_errors=True)
                break
            shutil.rmtree(stale, ignore_errors=True)
            # every emitted file compiles; file set = one module per declared type + one __init__ per protocol file
            sp = X.load_tree(spec)
            want = set()
            for rel in sp.files:
                want.add(os.path.join(rel, "__init__.py") if rel else "__init__.py")
            for e in sp.enums.values():
                want.add(os.path.join(e.path, X.pascal_to_snake(e.name) + ".py"))
            for s in sp.structs.values():
                want.add(os.path.join(s.path, X.pascal_to_snake(s.name) + ".py"))
            for p in sp.packets:
                want.add(os.path.join(p.path, X.pascal_to_snake(p.name) + ".py"))
            got = set(base)
            if got != {os.path.normpath(w) for w in want}:
                failures.append({"kind": "file-set-differs", "tree": tname,
                                 "missing": sorted({os.path.normpath(w) for w in want} - got)[:5],
                                 "extra": sorted(got - {os.path.normpath(w) for w in want})[:5]})
                break
            for rel in sorted(base):
                try:
                    compile(open(os.path.join(keep, rel), encoding="utf-8").read(), rel, "exec")
                except SyntaxError as e:
                    failures.append({"kind": "emitted-file-does-not-compile", "tree": tname, "file": rel, "error": str(e)})
            # importability over an overlay copy (only for trees in the documented layout)
            if tname.startswith("realistic") or tname in ("crossref", "gaps"):
                ov = os.path.join(tmp, "overlay-" + tname)
                shutil.copytree(os.path.join(repo.REPO, "src", "eolib"), os.path.join(ov, "eolib"),
                                ignore=shutil.ignore_patterns("__pycache__", "_generated"))
                shutil.copytree(keep, os.path.join(ov, "eolib", "protocol", "_generated"))
                expected = [(e.name, e.path) for e in sp.enums.values()] + [(s.name, s.path) for s in sp.structs.values()] \
                    + [(p.name, p.path) for p in sp.packets]
                with open(os.path.join(tmp, "expected.json"), "w") as f:
                    json.dump(expected, f)
                for py in pys:
                    p = subprocess.run([py, os.path.join(VERIF, "checks", "c18_import.py"), ov,
                                        os.path.join(tmp, "expected.json")], capture_output=True, text=True)
                    evals += 1
                    distinct.add((tname, "import", py))
                    try:
                        res = json.loads(p.stdout.strip().splitlines()[-1])
                    except Exception:
                        res = {"problems": ["import helper crashed: " + p.stderr[-300:]], "checked": 0}
                    if res["problems"]:
                        failures.append({"kind": "package-not-importable-or-incomplete", "tree": tname, "python": py,
                                         "problems": res["problems"][:5]})
                    elif len(samples) < 4:
                        samples.append({"tree": tname, "python": res.get("python"), "types_checked": res["checked"]})
                shutil.rmtree(ov, ignore_errors=True)
            if len(samples) < 8:
                samples.append({"tree": tname, "files": len(base), "configurations_identical": n})
            shutil.rmtree(keep, ignore_errors=True)
            if failures:
                break
    finally:
        shutil.rmtree(tmp, ignore_errors=True)
    ev = {"property_id": "C18", "tier": tier, "seed": seed, "level": "exploration",
          "coverage": {"evaluations": evals, "distinct_nontrivial": len(distinct),
                       "rule": "generator runs (fresh interpreter each) over valid spec trees (realistic corpus, copies created "
                               "in shuffled on-disk order, multi-file trees of enumerated bodies with packets) x PYTHONHASHSEED x "
                               "shuffled os.walk enumeration x both interpreters x re-run into the pre-populated output; all "
                               "outputs must be byte-identical, compile, consist of exactly one module per declared type plus one "
                               "__init__ per protocol file; overlay import of eolib checks every declared type is a class "
                               "exported from its subpackage and from the top-level package; distinct = distinct configurations",
                       "samples": samples, "trees": len(trees), "bounded": True},
          "assumptions": ["bounded stand-in, not a proof (string building, set iteration, os.walk and file effects are outside "
                          "the VC generator's fragment)"],
          "wall_s": round(time.time() - t0, 2), "violations": len(failures)}
    with open(os.path.join(VERIF, "evidence", "C18.json"), "w") as f:
        json.dump(ev, f, indent=1, default=str)
    print(f"C18: {evals} generator/import runs over {len(trees)} valid trees, {len(failures)} failures (bounded stand-in), "
          f"{round(time.time() - t0, 1)} s")
    if failures:
        path = os.path.join(VERIF, "replays", "C18-0.json")
        os.makedirs(os.path.dirname(path), exist_ok=True)
        with open(path, "w") as f:
            json.dump({"property": "C18", "obligation": "generate:runtime-contract", "custom_replay": "checks.c18",
                       "inputs": failures[0], "tier": tier, "seed": seed}, f, indent=1, default=str)
        print(f"  failing configuration on the real generator: {json.dumps(failures[0], default=str)[:600]}")
        print(f"VIOLATION property=C18 replay={path}")
        return 1
    return 0


def replay(rp):
    return run(rp.get("tier", "quick"), rp.get("seed", 0))
