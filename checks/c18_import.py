"""C18 helper, run in a fresh interpreter over an overlay copy (src/eolib + generated package):
every declared type must be a class exported from its subpackage and from the top-level package.
usage: c18_import.py <overlay_src_dir> <expected.json>"""
import importlib
import inspect
import json
import sys

sys.path.insert(0, sys.argv[1])
expected = json.load(open(sys.argv[2]))
problems = []
try:
    eolib = importlib.import_module("eolib")
except Exception as e:
    print(json.dumps({"problems": ["import eolib failed: " + repr(e)], "checked": 0}))
    sys.exit(0)
checked = 0
for name, sub in expected:
    checked += 1
    # the hand-written wrapper packages exist for the documented layout only; a type declared in any other directory is
    # looked up in the generated package itself (and nothing is demanded of the top-level package for it)
    documented = sub in ("", "map", "net", "net/client", "net/server", "pub", "pub/server")
    pkg = ("eolib.protocol" if documented else "eolib.protocol._generated") + ("." + sub.replace("/", ".") if sub else "")
    try:
        m = importlib.import_module(pkg)
    except Exception as e:
        problems.append(f"{pkg} not importable: {e!r}")
        continue
    obj = getattr(m, name, None)
    if not inspect.isclass(obj):
        problems.append(f"{name} is not a class exported from {pkg}")
        continue
    top = getattr(eolib, name, None)
    if documented and (top is None or not inspect.isclass(top)):
        problems.append(f"{name} is not exported from the top-level package")
print(json.dumps({"problems": problems[:20], "checked": checked, "python": sys.version.split()[0]}))
