"""Drivers for the generated-code properties decided per program (C02, C03, C15, C16, C19)."""
import json
import os
import random
import shutil
import sys
import tempfile
import time
import traceback

VERIF = os.path.dirname(os.path.dirname(os.path.abspath(__file__)))
if VERIF not in sys.path:
    sys.path.insert(0, VERIF)

from checks import e2                                              # noqa: E402
from checks.common import load_known, BASE_ASSUMPTIONS              # noqa: E402
from pyvc import repo                                               # noqa: E402
from xmlsem import specgen as G                                     # noqa: E402

E2_ASSUMPTIONS = [
    "per program: the proof covers all objects / all byte strings; the set of programs is enumerated "
    "(realistic corpus + bounded-exhaustive instruction sequences; bound stated in coverage.rule)",
    "abstract writer / reader: E2 works over z3 sequences (writer: data' = data ++ piece, the piece an uninterpreted "
    "function ENC / SB / ES / PAD of arguments and mode) and uninterpreted reader-state transformers (SKIP, NEXT, SETCH "
    "observed through CH / POS / REM / TOT / CSR). Their link to the array-form contracts of EoWriter (C09) and EoReader "
    "(C05), proved against the real bodies, is by lemmas discharged in this check's closure run: lemmas.reader_algebra "
    "(every reading method satisfies contracts.spec.RA_*, the very texts Vocab evaluates symbolically) and "
    "lemmas.writer_algebra (frame, length, piece-is-a-function-of-arguments-and-mode, refusal iff contracts.spec.WA_*). "
    "Left as a meta-step: that pointwise array statements (prefix kept, k-th appended byte) and the sequence statement "
    "`data ++ piece` say the same; that VINT / VSTR values of the abstract reader are the C05 decode of the bytes at the "
    "position (used as uninterpreted functions of the state)",
    "object domain: integer fields and array elements are >= 0; array elements are non-None instances of the "
    "declared element type; a referenced length is not smaller than a positive length offset; every length "
    "field equals len() of the field referencing it (established by the emitted __init__, verified)",
    "ProtocolEnumMeta.__call__ never fails and keeps the integer (C14, bounded)",
    "int(reader.remaining / size) is exact (byte strings shorter than 2^50 bytes)",
    "loops of emitted code correspond to the <array> instructions of the class in document order",
    "python semantics of the emitted text: descriptor rules (a property without setter makes assignment raise "
    "AttributeError), try/finally, keyword-only constructor",
]
E2_TRUSTED = [
    "xmlsem (/verif/xmlsem): the independent reading of the eo-protocol XML - specification, hence trusted",
    "pyvc + pyvc.gen (ast -> VC translator for the emitted text), z3 5.1 sequence theory",
    "the spec enumerator's template alphabet (/verif/xmlsem/specgen.py)",
]


def write_single_spec(ident, body, root):
    if str(ident).startswith("packet:"):
        G.write_tree(root, [], packet_bodies=[("Act", body)])
    else:
        G.write_tree(root, [("T", body)])


def _replay_worker(args):
    """one native replay (first on the single spec / tree, then - if that finds nothing - on the whole batch tree)"""
    prop, tier, seed, ident, body, cls_name, tree, payload, cls_in_batch = args
    chk = E2Check(prop, tier, seed, "")
    try:
        nat = chk.native_replay(ident, body, cls_name, tree)
        batch = None
        if nat is None and payload is not None:
            nat = chk.native_replay(ident, body, cls_in_batch, None, payload)
            if nat is not None:
                batch = payload
                nat["needs_the_whole_batch_tree"] = True
        return nat, batch
    except Exception as e:
        return {"kind": "native-harness-error", "exception": repr(e)}, None


class E2Check:
    def parallel_replays(self, items):
        """items: (ident, body, cls_name or None, tree, payload, cls_in_batch) -> [(native result, batch)]"""
        if not items:
            return []
        import multiprocessing as mp
        args = [(self.prop, self.tier, self.seed) + tuple(it) for it in items]
        if len(args) == 1:
            return [_replay_worker(args[0])]
        ctx = mp.get_context("fork")
        with ctx.Pool(min(16, len(args), os.cpu_count() or 1)) as pool:
            return pool.map(_replay_worker, args, chunksize=1)

    def __init__(self, prop, tier, seed, level_text):
        self.prop = prop
        self.tier = tier
        self.seed = seed
        self.t0 = time.time()

    def native_replay(self, ident, body, cls_name, tree_dir=None, payload=None):
        """deterministic native search on the real generated code of one spec for this property"""
        from pyvc.gen_verify import run_generator
        from xmlsem.native import Program
        from xmlsem import natcheck
        tmp = tempfile.mkdtemp(prefix="verif-replay-")
        try:
            if payload is not None:
                # the whole batch tree: some defects depend on what else the generator saw in the same run
                spec_dir = os.path.join(tmp, "spec")
                pk = [("Act", payload[0][2]), ("Act2", payload[-1][2])]
                G.write_tree(spec_dir, [(n, b) for n, _, b in payload], packet_bodies=pk)
            elif tree_dir is None:
                spec_dir = os.path.join(tmp, "spec")
                write_single_spec(ident, body, spec_dir)
            else:
                spec_dir = tree_dir
            out = os.path.join(tmp, "out")
            rc, so, se = run_generator(spec_dir, out)
            if rc != 0:
                return {"kind": "generator-rejects-valid-spec", "error": se.strip().splitlines()[-1] if se.strip() else ""}
            P = Program(spec_dir, out, repo.REPO)
            names = [n for n in P.decls if n == cls_name or (cls_name is None)]
            if cls_name is not None and names:
                # and the classes of the same program that hold an instance of it: a summary the class fails to keep
                # (the mode it hands back) shows in what its holders write / read afterwards
                from xmlsem import ir as XI
                users = [n for n, d in P.decls.items() if n not in names and any(
                    i.tag in ("field", "array") and str(i.type).split(":")[0] == cls_name for i in XI.flatten_own(d.body))]
                names += users[:6]
            if not names:
                names = [n for n in P.decls if n.split(".")[0] == (cls_name or "T").split(".")[0]]
            budget = 60 if self.tier == "quick" else 400
            for n in names:
                try:
                    r = natcheck.search(P, n, self.prop, self.seed, budget, wall_s=60 if self.tier == "quick" else 600)
                except Exception as e:
                    r = {"kind": "native-harness-error", "exception": repr(e), "trace": traceback.format_exc()[-600:]}
                    continue
                if not r.get("ok"):
                    if r.get("kind") == "does-not-terminate":
                        from xmlsem import wellformed
                        r["read_to_end_arrays_without_progress"] = wellformed.known_shape_sites(P.spec, n)
                    if r.get("kind") == "exception-escapes" and "TypeError" in str(r.get("exception")):
                        from xmlsem import wellformed
                        r["optional_length_across_break"] = [
                            a for m2 in P.decls if m2 == n or m2.startswith(n + ".")
                            for a in wellformed.optional_length_across_break(P.decls[m2])]
                    return r
            return None
        finally:
            shutil.rmtree(tmp, ignore_errors=True)

    def static_sites(self, ident, body, cls_name, tree_dir=None, payload=None):
        """call sites of the shape known finding C03/does-not-terminate names, in the class an obligation
        belongs to (static: from the XML alone)"""
        from xmlsem import wellformed, ir
        tmp = tempfile.mkdtemp(prefix="verif-sites-")
        try:
            if payload is not None:
                spec_dir = os.path.join(tmp, "spec")
                G.write_tree(spec_dir, [(n, b) for n, _, b in payload],
                             packet_bodies=[("Act", payload[0][2]), ("Act2", payload[-1][2])])
            elif tree_dir is None:
                spec_dir = os.path.join(tmp, "spec")
                write_single_spec(ident, body, spec_dir)
                cls_name = "T" + cls_name[len(cls_name.split(".")[0]):] if not str(ident).startswith("packet:") else cls_name
            else:
                spec_dir = tree_dir
            try:
                return wellformed.known_shape_sites(ir.load_tree(spec_dir), cls_name)
            except Exception:
                return []
        finally:
            shutil.rmtree(tmp, ignore_errors=True)

    def run_closure(self):
        """the library contracts this property's abstract writer / reader restate, discharged against
        the real bodies (same machinery as C05 / C09), reported under this property"""
        from checks.props import CLOSURES
        from checks.common import PropertyCheck
        cfg = CLOSURES.get(self.prop)
        if cfg is None:
            return 0, None
        pc = PropertyCheck(self.prop, cfg, self.tier, self.seed)
        rc = pc.run(write_evidence=False, label=cfg["title"])
        summary = {"title": cfg["title"], "obligations": len(getattr(pc, "obls", [])),
                   "discharged": getattr(pc, "discharged", 0),
                   "functions_under_contract": [f["function"] for f in getattr(pc, "functions", [])],
                   "functions_outside_fragment": getattr(pc, "outside", []), "exit": rc,
                   "extra": getattr(pc, "extra_cov", None)}
        return rc, summary

    def run(self):
        from xmlsem import anchors
        bad = anchors.check()
        if bad:
            print(f"CHECKER-ERROR property={self.prop} xmlsem disagrees with its hand-computed anchor vectors: {bad[:3]}")
            return 3
        crc, closure = self.run_closure()
        if crc == 3:
            return 3
        rc = self.run_e2(closure)
        if crc in (1, 2) and rc == 0:
            return crc
        return max(rc, crc) if rc in (0, 1, 2) and crc in (0, 1, 2) and 1 in (rc, crc) and False else (1 if 1 in (rc, crc) else max(rc, crc))

    def run_e2(self, closure=None):
        what = e2.WHAT_FOR[self.prop]
        try:
            pipe = e2.run_pipeline(what, self.tier, self.seed, repo.REPO, prop=self.prop)
        except Exception as e:
            print(f"CHECKER-ERROR property={self.prop} {e!r}")
            traceback.print_exc()
            return 3
        obligations = discharged = skipped = 0
        bad_counts = {}
        by_backend = {}
        solver_s = 0.0
        classes = programs = 0
        failures = []          # (ident, body, obligation tuple, tree)
        unknowns = []
        unsupported = []
        generr = []
        samples = []
        crashes = []
        bodies = dict(pipe["accept"])
        for ident, body in list(bodies.items()):
            bodies["packet:" + ident] = body
        for task, out in pipe["results"]:
            if out.get("crash"):
                crashes.append(out["generator_error"])
                continue
            if out["generator_error"]:
                idents = ["realistic corpus"] if task[0] == "tree" else [x[1] for x in task[1]]
                generr.append((idents, out["generator_error"]))
                continue
            programs += 1 if task[0] == "tree" else len(task[1])
            classes += out["classes"]
            solver_s += out["solver_s"]
            for u in out["unsupported"]:
                unsupported.append(u)
            for ob in out["obligations"]:
                name, kind, fn, status, backend, dt, info, model = ob
                if self.prop not in e2.obligation_properties(name, kind, info, fn):
                    continue
                obligations += 1
                if status == "unsat":
                    discharged += 1
                    by_backend[backend] = by_backend.get(backend, 0) + 1
                    if len(samples) < 12 and obligations % 997 in (1, 400):
                        samples.append({"obligation": name, "why": info.get("why"), "status": status, "backend": backend})
                elif status == "skipped":
                    skipped += 1
                else:
                    top = fn.split(".")[0]
                    ident = out["idents"].get(top, "realistic:" + top)
                    bad_counts[(ident, fn.rsplit(".", 1)[0])] = bad_counts.get((ident, fn.rsplit(".", 1)[0]), 0) + 1
                    rec = (ident, bodies.get(ident), ob, task[1] if task[0] == "tree" else None,
                           task[1] if task[0] == "batch" else None)
                    (failures if status == "sat" else unknowns).append(rec)
        if crashes:
            print(f"CHECKER-ERROR property={self.prop} worker crash: {crashes[0][:800]}")
            return 3
        if obligations == 0:
            print(f"CHECKER-ERROR property={self.prop} vacuity: zero obligations")
            return 3
        # ---- triage
        t_triage = time.time()
        self.phase = {"pipeline_s": round(pipe["wall_s"], 1)}
        violations = []
        undecided = []
        seen = set()
        todo = []
        for ident, body, ob, tree, payload in failures + unknowns:
            cls_name = ob[2].rsplit(".", 1)[0]
            if (ident, cls_name) in seen:
                continue
            seen.add((ident, cls_name))
            todo.append((ident, body, ob, tree, payload, cls_name))
        CH = 32
        for lo in range(0, len(todo), CH):
            chunk = todo[lo:lo + CH]
            enough = len([v for v in violations
                          if v["native"] and not v["native"].get("read_to_end_arrays_without_progress")
                          and not v["native"].get("optional_length_across_break")]) >= 8
            run_now = [t for t in chunk if not (enough and t[2][3] == "sat")]
            nats = dict(zip([id(t) for t in run_now],
                            self.parallel_replays([(t[0], t[1], t[5] if t[3] else None, t[3], t[4], t[5]) for t in run_now])))
            for t in chunk:
                ident, body, ob, tree, payload, cls_name = t
                name, kind, fn, status, backend, dt, info, model = ob
                if id(t) not in nats:
                    # enough violations with a failing input on the real code are already in hand
                    violations.append({"spec": ident, "body": body, "class": cls_name, "obligation": name, "status": status,
                                       "why": info.get("why"), "counter_model": model, "native": None, "batch": None,
                                       "not_replayed": True})
                    continue
                nat, batch = nats[id(t)]
                rec = {"spec": ident, "body": body, "class": cls_name, "obligation": name, "status": status,
                       "why": info.get("why"), "counter_model": model, "native": nat, "batch": batch}
                if status == "sat" or nat is not None:
                    violations.append(rec)
                elif kind == "variant" and self.prop == "C03" and self.static_sites(ident, body, cls_name, tree, payload):
                    # an undecided termination obligation of a loop the known finding names: the call site is the
                    # finding's; whether this particular spec can reach it with data left was not decided
                    rec["native"] = {"kind": "does-not-terminate", "unconfirmed_here": True,
                                     "read_to_end_arrays_without_progress": self.static_sites(ident, body, cls_name, tree, payload)}
                    rec["unconfirmed"] = True
                    violations.append(rec)
                else:
                    undecided.append(rec)
        self.phase["triage_s"] = round(time.time() - t_triage, 1)
        t_standin = time.time()
        # functions outside the VC generator's fragment: bounded stand-in (never counted as proved)
        standins = []
        seen_u = set()
        su = []
        for task, out in pipe["results"]:
            for (cname, fn, reason) in out["unsupported"]:
                top = cname.split(".")[0]
                ident = out["idents"].get(top, "realistic:" + top)
                if (ident, cname) in seen_u:
                    continue
                seen_u.add((ident, cname))
                su.append((ident, cname, fn, reason, task))
        nats = self.parallel_replays([(ident, bodies.get(ident), cname if task[0] == "tree" else None,
                                       task[1] if task[0] == "tree" else None, None, cname)
                                      for ident, cname, fn, reason, task in su])
        for (ident, cname, fn, reason, task), (nat, _) in zip(su, nats):
            standins.append({"spec": ident, "class": cname, "function": fn, "reason": reason,
                             "bounded_native_search": "no failure" if nat is None else "FAILURE"})
            if nat is not None:
                violations.append({"spec": ident, "body": bodies.get(ident), "class": cname,
                                   "obligation": f"{cname}.{fn}:runtime-contract(bounded)", "status": "native",
                                   "why": "bounded stand-in for a function outside the fragment found a failure",
                                   "counter_model": None, "native": nat})
        self.phase["standins_s"] = round(time.time() - t_standin, 1)
        if self.prop == "C02":
            seen_nc = set()
            for task, out in pipe["results"]:
                for cname, err in out.get("noncompiling", []):
                    top = cname.split(".")[0]
                    ident = out["idents"].get(top, "realistic:" + top)
                    if (ident, cname) in seen_nc:
                        continue
                    seen_nc.add((ident, cname))
                    violations.append({"spec": ident, "body": bodies.get(ident), "class": cname,
                                       "obligation": f"{cname}:emitted-module-compiles", "status": "native",
                                       "why": "the module emitted for a valid specification is not valid Python: " + err,
                                       "counter_model": None,
                                       "native": {"kind": "emitted-module-does-not-compile", "error": err, "class": cname}})
        # valid specs the generator refuses (C02's boolean clause / C18) are violations of C02
        if self.prop == "C02":
            for idents, err in generr:
                violations.append({"spec": idents[0], "body": bodies.get(idents[0]), "class": None,
                                   "obligation": "generator-accepts-valid-spec", "status": "native",
                                   "why": "a specification that xmlsem finds well-formed is rejected: " + err,
                                   "counter_model": None, "native": {"kind": "generator-rejects-valid-spec", "error": err}})
        elif generr and not obligations:
            print(f"CHECKER-ERROR property={self.prop} generator failed on every spec: {generr[0][1]}")
            return 3
        known = load_known(self.prop)
        known_lines = []
        known_instances = []
        attributed = 0          # undischarged obligations that ARE the listed known findings
        real = []
        for v in violations:
            hit = None
            for e in known:
                if e.get("status") != "finding":
                    continue
                m = e.get("match")
                if m is None:
                    if e.get("spec") == v["spec"] and e.get("class") in (None, v["class"]):
                        hit = e
                elif v["native"] and v["native"].get("kind") == m.get("native_kind") and \
                        v["native"].get(m.get("call_site_key")) and \
                        (m.get("obligation_kind") is None or f":{m['obligation_kind']}:" in v["obligation"]):
                    # the finding names a call-site shape: only a natively confirmed failure of that kind at a
                    # class that has such a call site is the known one
                    hit = e
            if hit:
                line = f"KNOWN-FINDING: property={self.prop} {hit['what']}"
                if line not in known_lines:
                    known_lines.append(line)
                attributed += bad_counts.pop((v["spec"], v["class"]), 0)
                known_instances.append({"spec": v["spec"], "class": v["class"], "obligation": v["obligation"],
                                        "solver": v["status"], "confirmed_on_the_real_code": not v.get("unconfirmed"),
                                        "input": (v["native"] or {}).get("bytes")})
            else:
                real.append(v)
        violations = sorted(real, key=lambda v: v["native"] is None)     # replayable ones first
        # ---- evidence
        k1 = len([1 for ident, _ in pipe["accept"] if "+" not in ident])
        rule = (f"programs = the realistic corpus (specs/realistic, 7 files) + enumerated single-struct specs over "
                f"{len(G.TEMPLATES)} instruction templates x {len(G.POSITIONS)} positions: all sequences of length 1"
                + (f" and a seed-{self.seed} sample of 1000 of length 2" if self.tier == "quick"
                   else f", every pair of the {len(G.CORE)} core templates, a seeded sample of 10000 pairs of all templates and of 2000 triples")
                + "; a program counts when xmlsem finds it well-formed and non-degenerate and the generator accepts it; "
                  "per program every emitted class is verified for all values")
        cov = {
            "obligations": obligations - attributed,
            "discharged": discharged,
            "obligations_of_listed_known_findings_not_discharged": attributed,
            "not_solved_after_eight_refutations_in_their_batch": skipped,
            "checker_cmd": f"python3-vt -m checks {self.prop} --tier {self.tier}",
            "trusted_base": E2_TRUSTED,
            "by_backend": by_backend,
            "solver_seconds": round(solver_s, 2),
            "programs": programs,
            "classes_verified": classes,
            "specs_enumerated": len(pipe["accept"]) + len(pipe["ill"]) + len(pipe["degenerate"]),
            "specs_ill_formed_skipped": len(pipe["ill"]),
            "specs_degenerate_skipped": len(pipe["degenerate"]),
            "functions_outside_fragment": [{"class": u[0], "function": u[1], "reason": u[2]} for u in unsupported[:40]],
            "functions_outside_fragment_count": len(unsupported),
            "bounded_standins": standins[:40],
            "generator_rejections_of_valid_specs": [{"spec": g[0][0], "error": g[1][:200]} for g in generr[:20]],
            "rule": rule,
            "samples": samples or [{"note": "no sample picked"}],
            "undecided": [u["obligation"] for u in undecided][:40],
            "known_findings_reported": known_lines,
            "known_finding_instances": known_instances[:60],
            "what_verified": list(what),
            "closure": closure,
        }
        if closure:
            cov["obligations"] += closure["obligations"]
            cov["discharged"] += closure["discharged"]
        ev = {"property_id": self.prop, "tier": self.tier, "seed": self.seed, "level": "proof", "coverage": cov,
              "assumptions": BASE_ASSUMPTIONS[:4] + E2_ASSUMPTIONS, "wall_s": round(time.time() - self.t0, 2),
              "violations": len(violations)}
        os.makedirs(os.path.join(VERIF, "evidence"), exist_ok=True)
        with open(os.path.join(VERIF, "evidence", f"{self.prop}.json"), "w") as f:
            json.dump(ev, f, indent=1, default=str)
        for line in known_lines:
            print(line)
        print(f"{self.prop}: {programs} programs, {classes} classes, {obligations} obligations, {discharged} discharged, "
              f"{len(violations)} violated, {len(undecided)} undecided, {len(unsupported)} functions outside the fragment, "
              f"{round(time.time() - self.t0, 1)} s {self.phase}")
        if violations:
            os.makedirs(os.path.join(VERIF, "replays"), exist_ok=True)
            for n, v in enumerate(violations[:8]):
                path = os.path.join(VERIF, "replays", f"{self.prop}-{n}.json")
                body = {"property": self.prop, "obligation": v["obligation"], "custom_replay": "checks.e2check",
                        "spec": v["spec"], "spec_body": v["body"], "class": v["class"], "seed": self.seed,
                        "batch": v.get("batch"),
                        "tier": self.tier, "inputs": v["native"], "no_failing_input_found": v["native"] is None,
                        "verifier": {"status": v["status"], "why": v["why"], "counter_model": v["counter_model"]}}
                with open(path, "w") as f:
                    json.dump(body, f, indent=1, default=str)
                print(f"  spec {v['spec']}  class {v['class']}  failed obligation {v['obligation']} [{v['status']}]: {v['why']}")
                if v["native"] is not None:
                    print(f"  failing input on the real generated code: {json.dumps(v['native'], default=str)[:500]}")
                tail = "" if v["native"] is not None else " no-failing-input-found"
                print(f"VIOLATION property={self.prop} replay={path}{tail}")
            return 1
        if undecided:
            for u in undecided[:10]:
                print(f"UNDECIDED obligation={u['obligation']} spec={u['spec']} solver={u['status']} (native search found no failure)")
            return 2
        if skipped:
            # cannot happen by construction (obligations are skipped only after refutations of this property, which are
            # reported above) - a safety net: obligations that were not solved are never passed over in silence
            print(f"UNDECIDED property={self.prop}: {skipped} obligations were not solved and no violation was reported")
            return 2
        return 0


def replay(rp):
    """python3-vt -m checks.replay <file> for an E2 replay file"""
    chk = E2Check(rp["property"], rp.get("tier", "quick"), rp.get("seed", 0), "")
    if rp.get("spec_body") is None and not str(rp.get("spec", "")).startswith("realistic"):
        print("no spec body recorded")
        return 0
    if rp.get("batch"):
        nat = chk.native_replay(rp["spec"], rp["spec_body"], rp.get("class"), None, [tuple(x) for x in rp["batch"]])
    elif str(rp.get("spec", "")).startswith("realistic"):
        nat = chk.native_replay(rp["spec"], None, rp.get("class"), e2.REALISTIC)
    else:
        nat = chk.native_replay(rp["spec"], rp["spec_body"], None)
    print(f"spec {rp['spec']}: {rp.get('spec_body')}")
    print(f"native result on the real generated code: {json.dumps(nat, default=str)[:1200]}")
    return 1 if nat is not None else 0
