import argparse
import os
import sys

VERIF = os.path.dirname(os.path.dirname(os.path.abspath(__file__)))
sys.path.insert(0, VERIF)


def main():
    ap = argparse.ArgumentParser()
    ap.add_argument("prop")
    ap.add_argument("--tier", default=os.environ.get("VERIF_TIER", "quick"), choices=["quick", "thorough"])
    args = ap.parse_args()
    seed = int(os.environ.get("VERIF_SEED", "0") or 0)
    from checks.props import PROPS
    if args.prop in PROPS:
        from checks.common import PropertyCheck
        rc = PropertyCheck(args.prop, PROPS[args.prop], args.tier, seed).run()
        sys.exit(rc)
    if args.prop in ("C02", "C03", "C15", "C16", "C19"):
        from checks.e2check import E2Check
        sys.exit(E2Check(args.prop, args.tier, seed, "").run())
    if args.prop == "C01":
        from checks import c01
        sys.exit(c01.run(args.tier, seed))
    if args.prop == "C17":
        from checks import c17
        sys.exit(c17.run(args.tier, seed))
    if args.prop == "C18":
        from checks import c18
        sys.exit(c18.run(args.tier, seed))
    if args.prop == "C14":
        from checks import c14
        sys.exit(c14.run(args.tier, seed))
    print(f"unknown property {args.prop}")
    sys.exit(3)


if __name__ == "__main__":
    main()
