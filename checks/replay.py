"""Re-execute a replay file against the real code: python3-vt -m checks.replay <path>"""
import json
import os
import sys

VERIF = os.path.dirname(os.path.dirname(os.path.abspath(__file__)))
sys.path.insert(0, VERIF)


def main():
    path = sys.argv[1]
    with open(path) as f:
        rp = json.load(f)
    print(f"property {rp['property']}  obligation {rp['obligation']}")
    print(f"verifier: {json.dumps(rp.get('verifier'), default=str)[:1500]}")
    if rp.get("custom_replay"):
        import importlib
        mod = importlib.import_module(rp["custom_replay"])
        sys.exit(mod.replay(rp))
    if rp.get("no_failing_input_found") or rp.get("inputs") is None:
        print("no failing input was found for this obligation; nothing to execute "
              "(the obligation named above failed in the verifier; its output is carried in this file)")
        sys.exit(0)
    from pyvc.native import Native, unshow
    from pyvc import repo
    nat = Native(rp["modules"], repo.REPO)
    if "__history__" in rp["inputs"]:
        st, d = nat.run_history(rp["inputs"])
        print(f"history: {json.dumps(rp['inputs'], default=str)[:1500]}")
        print(f"native result on the real code: {st} {d}")
        sys.exit(1 if st == "fail" else 0)
    kwargs = {k: unshow(v) for k, v in rp["inputs"].items()}
    if rp.get("is_lemma"):
        st, d = nat.run_lemma(rp["function"], kwargs)
    else:
        st, d = nat.run_case(rp["function"], kwargs)
    print(f"inputs: {rp['inputs']}")
    print(f"native result on the real code: {st} {d}")
    sys.exit(1 if st == "fail" else 0)


if __name__ == "__main__":
    main()
