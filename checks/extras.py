"""Native exhaustive / stratified sweeps that accompany the proofs (a proof and a concrete
evaluation disagreeing would mean the *engine* is wrong; a failure is reported with its input).
Bounded by construction; reported under coverage.native_sweep, never counted as proof."""
import importlib
import itertools
import random


def _fail(pc, fn, inputs, detail):
    pc.violations.append({"obligation": fn + ":native-sweep", "kind": "runtime", "function": fn, "solver_status": "n/a",
                          "backend": "native", "clause": None, "why": detail, "counter_model": None,
                          "native_input": inputs, "native_detail": {"kind": "native-sweep", "detail": detail},
                          "native_tried": 0})


def c07(pc):
    pc.native()
    m = importlib.import_module("eolib.data.number_encoding_utils")
    from contracts.spec import DEC
    enc, dec = m.encode_number, m.decode_number
    hi = 253 ** 2 if pc.tier == "quick" else 253 ** 3
    n_checked = 0
    for n in itertools.chain(range(hi), range(hi, 253 ** 4, 40009 if pc.tier == "quick" else 2003),
                             (253 ** 4 - 1, 253 ** 3, 253 ** 3 - 1, 253 ** 3 + 1)):
        e = enc(n)
        n_checked += 1
        if dec(e) != n or 0 in e or 255 in e or len(e) != 4:
            _fail(pc, "eolib.data.number_encoding_utils.encode_number", {"number": n}, f"encode/decode of {n}: {list(e)}")
            break
        k = 1 if n < 253 else 2 if n < 64009 else 3 if n < 16194277 else 4
        if dec(e[:k]) != n or any(b != 0xFE for b in e[k:]):
            _fail(pc, "eolib.data.number_encoding_utils.encode_number", {"number": n}, f"prefix/filler of {n}: {list(e)}")
            break
    maxlen = 2 if pc.tier == "quick" else 3
    d_checked = 0
    for ln in range(maxlen + 1):
        for bs in itertools.product(range(256), repeat=ln):
            d_checked += 1
            if dec(bytes(bs)) != DEC(bs):
                _fail(pc, "eolib.data.number_encoding_utils.decode_number", {"encoded_number": {"__bytes__": list(bs), "mutable": False}},
                      "decode differs from the positional formula")
                return {"native_sweep": {"encode_checked": n_checked, "decode_checked": d_checked}}
    return {"native_sweep": {"encode_checked": n_checked, "decode_strings_checked": d_checked,
                             "exhaustive_up_to": hi, "decode_exhaustive_len": maxlen}}


def c11(pc):
    pc.native()
    m = importlib.import_module("eolib.encrypt.server_verification_utils")
    from contracts.spec import HASH
    h = m.server_verification_hash
    if pc.tier == "quick":
        rng = itertools.chain(range(0, 253 ** 3, 61), range(11091000, 11094500), (253 ** 3 - 1,))
    else:
        rng = range(253 ** 3)
    n = 0
    for c in rng:
        n += 1
        r = h(c)
        if r != HASH(c) or (c <= 11092110 and not (0 <= r < 253 ** 4)):
            _fail(pc, "eolib.encrypt.server_verification_utils.server_verification_hash", {"challenge": c},
                  f"hash({c}) = {r}, client formula {HASH(c)}")
            break
    return {"native_sweep": {"challenges_checked": n, "exhaustive": pc.tier == "thorough"}}


def c12(pc):
    pc.native()
    ss = importlib.import_module("eolib.packet.sequence_start")
    import random as _random
    real = _random.randrange
    total = 0
    bad = None

    def drive(gen, check):
        nonlocal total, bad
        first_hi = {}
        # first draw
        calls = []

        def probe(lo, hi):
            calls.append((lo, hi))
            return lo
        ss.random.randrange = probe
        gen()
        lo0, hi0 = calls[0]
        step = 1 if pc.tier == "thorough" else 7
        for v in range(lo0, hi0, step):
            calls.clear()
            seq = [v]

            def probe2(lo, hi, seq=seq):
                calls.append((lo, hi))
                return seq[len(calls) - 1] if len(calls) - 1 < len(seq) else lo
            ss.random.randrange = probe2
            try:
                gen()
            except Exception as e:
                bad = ({"first_draw": v}, "generation failed: " + repr(e))
                return
            if len(calls) == 1:
                total += 1
                g = gen()
                err = check(g)
                if err:
                    bad = ({"draws": [v]}, err)
                    return
                continue
            lo1, hi1 = calls[1]
            for r in range(lo1, hi1, 1 if pc.tier == "thorough" else 5):
                calls.clear()
                seq[:] = [v, r]
                total += 1
                try:
                    g = gen()
                except Exception as e:
                    bad = ({"draws": [v, r]}, "generation failed: " + repr(e))
                    return
                err = check(g)
                if err:
                    bad = ({"draws": [v, r]}, err)
                    return

    def chk_init(g):
        if not (0 <= g.value < 1757 and 0 <= g.seq1 <= 252 and 0 <= g.seq2 <= 252):
            return f"out of range: value={g.value} seq1={g.seq1} seq2={g.seq2}"
        if ss.InitSequenceStart.from_init_values(g.seq1, g.seq2).value != g.value:
            return "from_init_values does not reproduce the value"

    def chk_ping(g):
        if not (0 <= g.value < 1757 and 0 <= g.seq1 < 253 ** 2 and 0 <= g.seq2 < 253):
            return f"out of range: value={g.value} seq1={g.seq1} seq2={g.seq2}"
        if ss.PingSequenceStart.from_ping_values(g.seq1, g.seq2).value != g.value:
            return "from_ping_values does not reproduce the value"

    def chk_ar(g):
        if not (0 <= g.value < 253):
            return f"out of range: value={g.value}"
        if ss.AccountReplySequenceStart.from_value(g.value).value != g.value:
            return "from_value does not reproduce the value"
    try:
        for gen, chk, name in ((ss.InitSequenceStart.generate, chk_init, "InitSequenceStart.generate"),
                               (ss.PingSequenceStart.generate, chk_ping, "PingSequenceStart.generate"),
                               (ss.AccountReplySequenceStart.generate, chk_ar, "AccountReplySequenceStart.generate")):
            drive(gen, chk)
            if bad:
                _fail(pc, "eolib.packet.sequence_start." + name, bad[0], bad[1])
                break
    finally:
        ss.random.randrange = real
    return {"native_sweep": {"random_outcomes_enumerated": total, "exhaustive": pc.tier == "thorough"}}


def c13(pc):
    pc.native()
    ps = importlib.import_module("eolib.packet.packet_sequencer")
    ss = importlib.import_module("eolib.packet.sequence_start")
    depth = 8 if pc.tier == "quick" else 12
    starts = [0, 5, 1000]
    ops = ["n"] + [("s", v) for v in starts[:2]]
    checked = 0
    for hist in itertools.product(ops, repeat=depth):
        seq = ps.PacketSequencer(ss.SequenceStart.zero())
        cur = 0
        served = 0
        for op in hist:
            if op == "n":
                r = seq.next_sequence()
                if r != cur + served % 10:
                    _fail(pc, "eolib.packet.packet_sequencer.PacketSequencer.next_sequence", {"history": [str(o) for o in hist]},
                          f"call #{served} returned {r}, expected {cur + served % 10}")
                    return {"native_sweep": {"histories_checked": checked}}
                served += 1
            else:
                cur = op[1]
                seq.set_sequence_start(ss.AccountReplySequenceStart.from_value(cur))
        checked += 1
    # long runs (several hundred requests, covering any wrap-around of an internal counter)
    rng = random.Random(pc.seed)
    for trial in range(20 if pc.tier == "quick" else 400):
        seq = ps.PacketSequencer(ss.SequenceStart.zero())
        cur = 0
        hist = []
        for served in range(1200):
            if rng.random() < 0.02:
                cur = rng.randrange(0, 1757)
                seq.set_sequence_start(ss.AccountReplySequenceStart.from_value(cur))
                hist.append(f"set({cur})")
            r = seq.next_sequence()
            if r != cur + served % 10:
                _fail(pc, "eolib.packet.packet_sequencer.PacketSequencer.next_sequence",
                      {"history": f"{served + 1} next_sequence calls, updates at: {hist[-5:]}"},
                      f"request n={served} returned {r}, expected {cur + served % 10}")
                return {"native_sweep": {"histories_checked": checked}}
    return {"native_sweep": {"histories_checked": checked, "depth": depth, "exhaustive": True, "long_runs_of": 1200}}


def c05(pc):
    """bounded-exhaustive operation histories: the real EoReader against xmlsem's independent reader
    model (data over {00, 01, FE, FF}; reads, over-reads, mode switches, next_chunk, fixed strings)"""
    pc.native()
    rd = importlib.import_module("eolib.data.eo_reader")
    from xmlsem.concrete import RState, dec_int, cp_dec
    alpha = [0x00, 0x01, 0xFE, 0xFF]
    maxlen, maxops = (3, 3) if pc.tier == "quick" else (5, 4)
    ops = [("byte",), ("char",), ("short",), ("int",), ("string",), ("mode", True), ("mode", False), ("next",),
           ("fixed", 2, False), ("fixed", 2, True), ("bytes", 1), ("bytes", 0)]
    checked = 0
    for n in range(maxlen + 1):
        for data in itertools.product(alpha, repeat=n):
            data = bytes(data)
            for hist in itertools.product(ops, repeat=maxops):
                r = rd.EoReader(data)
                m = RState(data, False)
                started = False
                ok = True
                for op in hist:
                    try:
                        if op[0] == "byte":
                            b = m.take(1)
                            got, want = r.get_byte(), (b[0] if b else 0)
                        elif op[0] == "char":
                            got, want = r.get_char(), dec_int(m.take(1))
                        elif op[0] == "short":
                            got, want = r.get_short(), dec_int(m.take(2))
                        elif op[0] == "int":
                            got, want = r.get_int(), dec_int(m.take(4))
                        elif op[0] == "string":
                            got, want = r.get_string(), cp_dec(m.take(m.rem()))
                        elif op[0] == "bytes":
                            got, want = bytes(r.get_bytes(op[1])), m.take(op[1])
                        elif op[0] == "fixed":
                            b = m.take(op[1])
                            if op[2]:
                                i = b.find(b"\xff")
                                b = b[:i] if i >= 0 else b
                            got, want = r.get_fixed_string(op[1], op[2]), cp_dec(b)
                        elif op[0] == "mode":
                            r.chunked_reading_mode = op[1]
                            m.chunked = op[1]
                            got = want = None
                        elif op[0] == "next":
                            if not m.chunked:
                                try:
                                    r.next_chunk()
                                    got, want = "returned", "RuntimeError"
                                except RuntimeError:
                                    got = want = None
                            else:
                                r.next_chunk()
                                m.next_chunk()
                                got = want = None
                    except Exception as e:
                        got, want = "raised " + repr(e), "no exception"
                    state_ok = (r.position == m.pos and r.remaining == m.rem() and 0 <= r.position <= len(data)
                                and r.remaining >= 0)
                    if got != want or not state_ok:
                        _fail(pc, "eolib.data.eo_reader.EoReader." + {"byte": "get_byte", "char": "get_char", "short": "get_short",
                              "int": "get_int", "string": "get_string", "bytes": "get_bytes", "fixed": "get_fixed_string",
                              "mode": "chunked_reading_mode.setter", "next": "next_chunk"}[op[0]],
                              {"data": {"__bytes__": list(data), "mutable": False}, "history": [str(o) for o in hist]},
                              f"after {op}: returned {got!r} (model {want!r}); position {r.position} (model {m.pos}), "
                              f"remaining {r.remaining} (model {m.rem()})")
                        return {"native_sweep": {"histories_checked": checked}}
                checked += 1
    return {"native_sweep": {"histories_checked": checked, "data_len_up_to": maxlen, "ops_per_history": maxops,
                             "alphabet": "00 01 FE FF", "exhaustive": True}}


def reader_algebra(pc):
    """the facts E2 asserts about its abstract reader transformers (pyvc.gen.Vocab.skip / next / setch),
    evaluated on the real EoReader over bounded-exhaustive states: data over {00, 41, FE, FF} up to
    length 4, every position reachable by reads, both modes"""
    pc.native()
    rd = importlib.import_module("eolib.data.eo_reader")
    alpha = [0x00, 0x41, 0xFE, 0xFF]
    maxlen = 4 if pc.tier == "quick" else 6
    checked = 0

    from contracts import spec as S

    def obs(r):
        return (r.chunked_reading_mode, r.position, r.remaining, len(r._data) - r.position, len(r._data) - r._chunk_start)

    def states(data):
        # reachable states: a few prefixes of operations
        for pre in itertools.product(("m1", "m0", "b1", "b2", "nc"), repeat=2):
            r = rd.EoReader(data)
            for op in pre:
                if op == "m1":
                    r.chunked_reading_mode = True
                elif op == "m0":
                    r.chunked_reading_mode = False
                elif op == "b1":
                    r.get_bytes(1)
                elif op == "b2":
                    r.get_bytes(2)
                elif op == "nc" and r.chunked_reading_mode:
                    r.next_chunk()
            yield r, pre

    def clone(r):
        c = object.__new__(type(r))
        c.__dict__.update(r.__dict__)
        return c
    for n in range(maxlen + 1):
        for data in itertools.product(alpha, repeat=n):
            data = bytes(data)
            for r0, pre in states(data):
                o0 = obs(r0)
                if not S.RA_STATE(o0[0], *o0[2:]):
                    _fail(pc, "eolib.data.eo_reader.EoReader.remaining", {"data": list(data), "prefix": pre}, f"RA_STATE violated: {o0}")
                    return {"reader_algebra_checked": checked}
                for k in (0, 1, 2, 3, 5):
                    for how in ("bytes", "fixed", "int"):
                        if how == "int" and k not in (1, 2, 3):
                            continue
                        r = clone(r0)
                        if how == "bytes":
                            r.get_bytes(k)
                        elif how == "fixed":
                            r.get_fixed_string(k, k % 2 == 1)
                        else:
                            (r.get_char, r.get_short, r.get_three)[k - 1]()
                        checked += 1
                        if not S.RA_SKIP(k, *(o0 + obs(r))):
                            _fail(pc, "eolib.data.eo_reader.EoReader.get_bytes", {"data": list(data), "prefix": pre, "k": k, "how": how},
                                  f"RA_SKIP violated: before {o0} after {obs(r)}")
                            return {"reader_algebra_checked": checked}
                r = clone(r0)
                r.get_string()
                checked += 1
                if not S.RA_SKIP(o0[2], *(o0 + obs(r))):
                    _fail(pc, "eolib.data.eo_reader.EoReader.get_string", {"data": list(data), "prefix": pre},
                          f"RA_SKIP(remaining) violated: before {o0} after {obs(r)}")
                    return {"reader_algebra_checked": checked}
                for b in (True, False):
                    r = clone(r0)
                    r.chunked_reading_mode = b
                    checked += 1
                    ok = S.RA_SETCH(b, *(o0 + obs(r)))
                    if o0[0] == b:
                        ok = ok and obs(r) == o0
                    if not ok:
                        _fail(pc, "eolib.data.eo_reader.EoReader.chunked_reading_mode.setter", {"data": list(data), "prefix": pre, "value": b},
                              f"RA_SETCH violated: before {o0} after {obs(r)}")
                        return {"reader_algebra_checked": checked}
                if o0[0]:
                    r = clone(r0)
                    r.next_chunk()
                    checked += 1
                    if not S.RA_NEXT(*(o0 + obs(r))):
                        _fail(pc, "eolib.data.eo_reader.EoReader.next_chunk", {"data": list(data), "prefix": pre},
                              f"RA_NEXT violated: before {o0} after {obs(r)}")
                        return {"reader_algebra_checked": checked}
    return {"reader_algebra_checked": checked,
            "reader_algebra_note": "contracts.spec.RA_STATE / RA_SKIP / RA_SETCH / RA_NEXT (the facts E2 asserts of its abstract reader) hold on the real EoReader for every enumerated state"}


def enum_contract(pc):
    """C03's "unknown enum ordinals are preserved" rests on ProtocolEnumMeta.__call__ (E2 assumes its contract, C14):
    the runtime contract is evaluated here too - bounded, labelled so - so that a change of the enum runtime shows
    under the property that depends on it"""
    from checks import c14
    r = c14.evaluate("quick", pc.seed, budget=1500)
    if isinstance(r, str):
        raise RuntimeError("enum contract: " + r)
    outs, failures = r
    if failures:
        f = failures[0]
        _fail(pc, "eolib.protocol.protocol_enum_meta.ProtocolEnumMeta.__call__", f,
              f"enum construction contract fails (bounded stand-in): {f.get('failed')}")
    return {"enum_contract_evaluations_bounded": sum(o["evaluations"] for o in outs)}


def c03_closure(pc):
    out = reader_algebra(pc)
    out.update(enum_contract(pc))
    return out
