"""Per-property configuration of the E1 checks: which contract / lemma modules make up the
dependency closure of the property."""

PROPS = {
    "C07": dict(
        modules=["contracts.number", "lemmas.c07"],
        title="EO number codec bijection",
    ),
    "C08": dict(
        modules=["contracts.strings", "lemmas.c08"],
        title="EO string encoding",
    ),
    "C10": dict(
        modules=["contracts.encrypt", "lemmas.c10"],
        title="encryption primitives",
        assumptions=["multiset preservation follows from 'out = in o pi with pi an involution of [0,n)' "
                     "(proved); permutation => equal multisets is the textbook meta-step"],
    ),
}
