"""Per-property configuration of the E1 checks: which contract / lemma modules make up the
dependency closure of the property."""
from checks import extras

PROPS = {
    "C04": dict(
        modules=["contracts.number", "contracts.strings", "contracts.writer", "contracts.reader", "lemmas.c04"],
        title="writer -> reader round trip",
        trusted=["cp1252 tables E, D (external codec; pointwise, total, stateless); the image of a string is D o E"],
        assumptions=["sequential composition of the per-pair frame lemmas is an induction on the number of "
                     "writes whose step is the lemmas themselves (meta-step)"],
    ),
    "C05": dict(
        modules=["contracts.number", "contracts.strings", "contracts.reader"],
        title="EoReader chunked-reading model",
        extra=extras.c05,
        trusted=["cp1252 decode table D (external codec; pointwise, total, stateless)"],
    ),
    "C06": dict(
        modules=["contracts.number", "contracts.strings", "contracts.writer", "contracts.reader", "lemmas.c06"],
        title="chunk isolation",
        assumptions=["induction over the list of chunks: step lemmas (2)-(4) are proved; the induction itself is "
                     "the meta-step", "padded strings are excluded by the statement (padding is 0xFF)"],
    ),
    "C17L": dict(
        modules=["contracts.generator"],
        title="generator leaf guards",
    ),
    "C07": dict(
        modules=["contracts.number", "lemmas.c07"],
        title="EO number codec bijection",
        extra=extras.c07,
    ),
    "C08": dict(
        modules=["contracts.strings", "lemmas.c08"],
        title="EO string encoding",
    ),
    "C11": dict(
        modules=["contracts.hash"],
        title="server verification hash",
        extra=extras.c11,
        lift={"eolib.encrypt.server_verification_utils.server_verification_hash":
              ["eolib.encrypt.server_verification_utils._mod"]},
    ),
    "C12": dict(
        modules=["contracts.sequence", "lemmas.c12"],
        title="sequence starts",
        extra=extras.c12,
    ),
    "C13": dict(
        modules=["contracts.sequence", "contracts.sequencer", "lemmas.c13"],
        title="packet sequencer",
        extra=extras.c13,
        functions=["eolib.packet.packet_sequencer.PacketSequencer.__init__",
                   "eolib.packet.packet_sequencer.PacketSequencer.next_sequence",
                   "eolib.packet.packet_sequencer.PacketSequencer.set_sequence_start"],
    ),
    "C09": dict(
        modules=["contracts.number", "contracts.strings", "contracts.writer", "lemmas.c09"],
        title="EoWriter atomic validation and sanitisation",
        trusted=["cp1252 encode table E (external codec; pointwise, total, stateless)"],
    ),
    "C10": dict(
        modules=["contracts.encrypt", "lemmas.c10"],
        title="encryption primitives",
        assumptions=["multiset preservation follows from 'out = in o pi with pi an involution of [0,n)' "
                     "(proved); permutation => equal multisets is the textbook meta-step"],
    ),
}


# dependency closures of the generated-code properties: the library contracts their abstract
# writer / reader restate are discharged against the real bodies in the same check run
CLOSURES = {
    "C02": dict(modules=["contracts.number", "contracts.strings", "contracts.writer", "lemmas.writer_algebra"],
                title="closure: EoWriter + writer-algebra lemmas"),
    "C16": dict(modules=["contracts.number", "contracts.strings", "contracts.writer", "lemmas.writer_algebra"],
                title="closure: EoWriter + writer-algebra lemmas"),
    # "serializing the same instance twice yields identical bytes" needs the writer to append a function of its arguments
    # and mode only (lemmas.writer_algebra), whatever was written before by anybody
    "C19": dict(modules=["contracts.number", "contracts.strings", "contracts.writer", "lemmas.writer_algebra"],
                title="closure: EoWriter + writer-algebra lemmas (the appended bytes depend on arguments and mode only)"),
    "C03": dict(modules=["contracts.number", "contracts.strings", "contracts.reader", "lemmas.reader_algebra"],
                title="closure: EoReader + reader-algebra lemmas + enum construction contract (bounded)",
                extra=extras.c03_closure),
    "C15": dict(modules=["contracts.number", "contracts.strings", "contracts.writer", "contracts.reader",
                         "lemmas.reader_algebra", "lemmas.writer_algebra"],
                title="closure: EoWriter + EoReader + reader-algebra lemmas", extra=extras.reader_algebra),
    "C01": dict(modules=["contracts.number", "contracts.strings", "contracts.writer", "contracts.reader",
                         "lemmas.c04", "lemmas.c06"], title="closure: writer, reader, pair lemmas"),
}
