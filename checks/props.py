"""Per-property configuration of the E1 checks: which contract / lemma modules make up the
dependency closure of the property."""

PROPS = {
    "C05": dict(
        modules=["contracts.number", "contracts.strings", "contracts.reader"],
        title="EoReader chunked-reading model",
        trusted=["cp1252 decode table D (external codec; pointwise, total, stateless)"],
    ),
    "C07": dict(
        modules=["contracts.number", "lemmas.c07"],
        title="EO number codec bijection",
    ),
    "C08": dict(
        modules=["contracts.strings", "lemmas.c08"],
        title="EO string encoding",
    ),
    "C11": dict(
        modules=["contracts.hash"],
        title="server verification hash",
        lift={"eolib.encrypt.server_verification_utils.server_verification_hash":
              ["eolib.encrypt.server_verification_utils._mod"]},
    ),
    "C12": dict(
        modules=["contracts.sequence", "lemmas.c12"],
        title="sequence starts",
    ),
    "C13": dict(
        modules=["contracts.sequence", "contracts.sequencer", "lemmas.c13"],
        title="packet sequencer",
        functions=["eolib.packet.packet_sequencer.PacketSequencer.__init__",
                   "eolib.packet.packet_sequencer.PacketSequencer.next_sequence",
                   "eolib.packet.packet_sequencer.PacketSequencer.set_sequence_start"],
    ),
    "C09": dict(
        modules=["contracts.number", "contracts.strings", "contracts.writer", "lemmas.c09"],
        title="EoWriter atomic validation and sanitisation",
        trusted=["cp1252 encode table E (external codec; pointwise, total, stateless)"],
    ),
    "C10": dict(
        modules=["contracts.encrypt", "lemmas.c10"],
        title="encryption primitives",
        assumptions=["multiset preservation follows from 'out = in o pi with pi an involution of [0,n)' "
                     "(proved); permutation => equal multisets is the textbook meta-step"],
    ),
}
