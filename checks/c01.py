"""C01 - round trip of generated serializers.  Decided here by a bounded stand-in only: the
deductive route (lemma RT_T chaining the C04/C06 pair lemmas through piece normal form) is not
built; see DESIGN.md.  For every class in C01's domain (wire-unambiguous, by xmlsem.c01_domain) of
the realistic corpus and of the enumerated specs: valid values (strings avoiding the documented
lossy characters) are serialized with a fresh writer and read back with a fresh reader."""
import json
import multiprocessing as mp
import os
import shutil
import sys
import tempfile
import time

VERIF = os.path.dirname(os.path.dirname(os.path.abspath(__file__)))
sys.path.insert(0, VERIF)
from pyvc import repo                                            # noqa: E402
from xmlsem import ir as X, specgen as G, wellformed as W        # noqa: E402
from checks import e2                                            # noqa: E402


def _work(args):
    kind, payload, seed, budget, repo_root = args
    from pyvc.gen_verify import run_generator
    from xmlsem.native import Program
    from xmlsem import natcheck
    tmp = tempfile.mkdtemp(prefix="verif-c01-")
    res = {"classes": 0, "in_domain": 0, "evaluations": 0, "failures": [], "error": None, "samples": []}
    try:
        if kind == "tree":
            spec_dir = payload
            idents = {}
        else:
            spec_dir = os.path.join(tmp, "spec")
            G.write_tree(spec_dir, [(n, b) for n, _, b in payload])
            idents = {n: (ident, b) for n, ident, b in payload}
        out = os.path.join(tmp, "out")
        rc, so, se = run_generator(spec_dir, out)
        if rc != 0:
            res["error"] = se.strip().splitlines()[-1] if se.strip() else "generator failed"
            return res
        P = Program(spec_dir, out, repo_root)
        for name, decl in P.decls.items():
            top = name.split(".")[0]
            if kind != "tree" and top not in idents:
                continue
            res["classes"] += 1
            ok, _, _ = W.c01_domain(P.spec, decl, P.ctx[name])
            if not ok:
                continue
            res["in_domain"] += 1
            r = natcheck.search(P, name, "C01", seed, budget)
            res["evaluations"] += r.get("evaluations", 0)
            if not r.get("ok"):
                r["spec"] = idents.get(top, ("realistic:" + top, None))[0]
                r["spec_body"] = idents.get(top, (None, None))[1]
                res["failures"].append(r)
            elif len(res["samples"]) < 2:
                res["samples"].append({"spec": idents.get(top, ("realistic:" + top,))[0], "class": name,
                                       "objects_round_tripped": r.get("evaluations", 0)})
        return res
    except Exception as e:
        import traceback
        res["error"] = "crash: " + repr(e) + traceback.format_exc()[-800:]
        res["crash"] = True
        return res
    finally:
        shutil.rmtree(tmp, ignore_errors=True)


def proved_part(tier, seed):
    """RT_T discharged deductively for the fixed-size classes (ints / bools / enums, nested fixed
    structs, literal-length arrays): emitted deserialize executed over the interpreted WIRE_T bytes"""
    pipe = e2.run_pipeline(("roundtrip",), tier, seed, repo.REPO)
    obligations = discharged = classes = 0
    bad = []
    outside = {}
    for task, out in pipe["results"]:
        for (cname, w, reason) in out["unsupported"]:
            outside[reason[:70]] = outside.get(reason[:70], 0) + 1
        if out.get("crash"):
            return 3, {"error": out["generator_error"][:500]}
        names = set()
        for ob in out["obligations"]:
            name, kind, fn, status, backend, dt, info, model = ob
            obligations += 1
            names.add(fn)
            if status == "unsat":
                discharged += 1
            else:
                top = fn.split(".")[0]
                bad.append({"spec": out["idents"].get(top, "realistic:" + top), "class": fn.rsplit(".", 1)[0],
                            "obligation": name, "status": status, "why": info.get("why"), "counter_model": model})
        classes += len(names)
    undecided = [b for b in bad if b["status"] != "sat"]
    bad = [b for b in bad if b["status"] == "sat"]
    # an undecided round-trip obligation leaves that class to the bounded stand-in; it is not a violation
    return (1 if bad else 0), \
        {"classes_proved": classes, "obligations": obligations, "discharged": discharged, "open": bad[:10],
         "undecided_left_to_the_bounded_standin": [u["obligation"] for u in undecided][:20],
         "classes_outside_the_proof_fragment": outside}


def run(tier, seed):
    t0 = time.time()
    prc, proved = proved_part(tier, seed)
    if prc == 3:
        print("CHECKER-ERROR property=C01 " + str(proved))
        return 3
    specs = e2.select_specs(tier, seed)
    accept = [(i, b) for i, b in specs if e2.classify(b)[0] == "ok"]
    budget = 40 if tier == "quick" else 400
    tasks = [("tree", e2.REALISTIC, seed, budget * 3, repo.REPO)]
    for k in range(0, len(accept), 25):
        chunk = accept[k:k + 25]
        tasks.append(("batch", [(f"T{k + j}", i, b) for j, (i, b) in enumerate(chunk)], seed, budget, repo.REPO))
    with mp.get_context("fork").Pool(min(16, os.cpu_count() or 1)) as pool:
        outs = pool.map(_work, tasks, chunksize=1)
    crashes = [o["error"] for o in outs if o.get("crash")]
    if crashes:
        print("CHECKER-ERROR property=C01 " + crashes[0][:600])
        return 3
    failures = [f for o in outs for f in o["failures"]]
    for b in proved["open"]:
        failures.append({"kind": "roundtrip-obligation-" + b["status"], "property": "C01", "spec": b["spec"], "class": b["class"],
                         "obligation": b["obligation"], "why": b["why"], "counter_model": b["counter_model"]})
    evals = sum(o["evaluations"] for o in outs)
    classes = sum(o["classes"] for o in outs)
    indom = sum(o["in_domain"] for o in outs)
    ev = {"property_id": "C01", "tier": tier, "seed": seed, "level": "exploration",
          "coverage": {"evaluations": evals, "distinct_nontrivial": evals,
                       "rule": "objects = seeded valid values (boundary-biased integers incl. unrecognized enum ordinals, strings "
                               "over an alphabet avoiding the documented lossy characters, nested structs, arrays, optional "
                               "tails, every switch case) of every generated class that xmlsem.c01_domain finds wire-unambiguous, "
                               "over the realistic corpus and the enumerated specs; each is serialized with a fresh EoWriter, "
                               "deserialized with a fresh EoReader, compared field by field, remaining == 0, byte_size == "
                               "len(bytes); distinct = objects generated (seeded; duplicates possible, not deduplicated)",
                       "samples": [s for o in outs for s in o["samples"]][:8] or [{"note": "none"}],
                       "classes": classes, "classes_in_domain": indom, "programs": len(accept) + 1, "bounded": True,
                       "proved_for_fixed_size_classes": proved},
          "assumptions": ["bounded stand-in for the classes listed under classes_outside_the_proof_fragment and for the property as a whole",
                          "xmlsem.c01_domain is a conservative reading of 'wire-unambiguous'",
                          "proved part: bytes = WIRE_T(obj) is C02; reader operations are the C05 contracts; DEC(ENC_k(v)) = v (C07), "
                          "cut-padding / decode(encode(x)) = x / cp1252 image (C04, C08) enter as ground lemma instances; in-domain "
                          "objects contain no 0xFF inside or ahead of chunked sections other than breaks and delimiters (C06)",
                          "split property of a fold of equal-size blocks (ground instances at the loop index) for arrays with a "
                          "symbolic element count: assumed, not proved",
                          "z3 sequence theory; sat answers only count when the model validates"],
          "wall_s": round(time.time() - t0, 2), "violations": len(failures)}
    with open(os.path.join(VERIF, "evidence", "C01.json"), "w") as f:
        json.dump(ev, f, indent=1, default=str)
    print(f"C01 [proved part]: RT_T discharged for {proved['classes_proved']} classes "
          f"({proved['discharged']}/{proved['obligations']} obligations)")
    print(f"C01: {evals} objects round-tripped over {indom} in-domain classes of {classes} ({len(accept) + 1} programs), "
          f"{len(failures)} failures (bounded stand-in), {round(time.time() - t0, 1)} s")
    if failures:
        os.makedirs(os.path.join(VERIF, "replays"), exist_ok=True)
        for n, f in enumerate(failures[:6]):
            path = os.path.join(VERIF, "replays", f"C01-{n}.json")
            with open(path, "w") as fh:
                json.dump({"property": "C01", "obligation": "roundtrip:runtime-contract", "custom_replay": "checks.e2check",
                           "spec": f.get("spec"), "spec_body": f.get("spec_body"), "class": f.get("class"), "seed": seed,
                           "tier": tier, "inputs": f}, fh, indent=1, default=str)
            print(f"  spec {f.get('spec')} class {f.get('class')}: {json.dumps(f, default=str)[:500]}")
            print(f"VIOLATION property=C01 replay={path}")
        return 1
    return 0
