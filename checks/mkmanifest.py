import json
P = {
 "C04": ("proof", "12 writer->reader pair lemmas (frame form: any prefix, any suffix) discharged over the contracts of the real EoWriter/EoReader methods, whose own bodies are verified in the same run (dependency closure: number codec, string codec, writer, reader)"),
 "C05": ("proof", "class invariant + functional contract for every EoReader method (20) over the reader's real attributes; VCs generated from the ast of eo_reader.py on every run; index obligations prove reads never leave the data for all byte strings and all states satisfying the invariant"),
 "C06": ("proof", "lemmas over C05/C07/C09 contracts: encodings and sanitised strings are 0xFF-free, next break unique, next_chunk independent of position, surplus reads yield 0/empty, chunk found where written"),
 "C07": ("proof", "encode_number/decode_number contracts (straight-line div/mod VCs; decode loop unrolled x4 with unwinding assertion) + round-trip, prefix/filler, injectivity and positional-formula lemmas, for all integers / all byte strings"),
 "C08": ("proof", "loop invariant of _invert_characters, contracts of encode_string/decode_string, and the five property-level lemmas (length, reversal, untouched bytes, 0x00/0xFF preserved, mutual inverse off 0x7E) for all byte strings of all lengths"),
 "C09": ("proof", "contracts for all 20 EoWriter methods incl. exceptional postconditions (ValueError iff rule violated, contents unchanged = exc-frame obligations) and exact appended bytes; sanitisation lemmas"),
 "C10": ("proof", "loop invariants for interleave/deinterleave/flip_msb/swap_multiples (outer+inner), posts as position maps, inverse/involution lemmas with verified ghost run finder"),
 "C11": ("proof", "_mod == truncating remainder (cvc5), hash == published formula and range clause by 99-way residue case split (each linear), plus the entry point re-verified with _mod inlined"),
 "C12": ("proof", "generate()/from_* contracts with random.randrange as an external contract (lo<hi required, result arbitrary in range): covers every outcome of every draw; round-trip lemmas"),
 "C13": ("proof", "PacketSequencer invariant 0<=counter<10, method contracts with frames, and the inductive step lemmas with ghost 'served' (counter == served mod 10)"),
}
P2 = {
 "C02": "per program (all objects): emitted serialize post 'writer.data == old ++ WIRE_T(obj, mode)' with WIRE_T derived from the XML by the independent interpreter xmlsem; emitted __init__ establishes length-field == len(referencing field) and carries hard-coded literals; a valid spec the generator refuses is a violation (boolean-attribute clause). Programs: realistic corpus + enumerated instruction sequences",
 "C03": "per program (all byte strings, both entry modes): emitted deserialize performs exactly the reader operations the XML reading rules prescribe (result fields, byte_size, final reader state equal xmlsem's PARSE over the reader algebra), no exception class other than the documented ValueError can escape (every call-site precondition is an obligation, incl. the class's own constructor), while-loops terminate (variant), every data access goes through reader methods whose bounds are C05",
 "C15": "per program: writer sanitisation mode / reader chunked mode at every exit (normal, SerializationError, ValueError, injected failure of any writer/reader call) equals the mode on entry, for both entry modes",
 "C16": "per program, no precondition on field values (None / any length / any int >= 0 / any case data): normal return of serialize implies VALID_T(obj) as derived from the XML; only SerializationError / the writer's ValueError escape; None-use, index and negative-writer-argument are obligations",
 "C19": "per program: class-shape obligations on the emitted AST (read-only properties only, no __setattr__/__slots__/setters), __init__ stores arguments unchanged with arrays as tuple copies, serialize never stores into the object, deserialized fields are of immutable sorts",
}
NOTE2 = ("Trusted: xmlsem (independent XML semantics = the specification), the ast->VC translator, z3 sequence theory, the abstract writer / reader of E2 "
         "(sequence / state-transformer form of the EoWriter/EoReader contracts, which are proved against the real bodies in C09/C05; linked to them by the "
         "lemmas of lemmas/reader_algebra.py and lemmas/writer_algebra.py discharged in each check's closure run; remaining meta-step: pointwise array form = sequence form). "
         "The set of programs is enumerated, not all programs. Full list in each evidence file.")
NOTE = ("Trusted: the ast->VC translator /verif/pyvc, z3 5.1 (+cvc5 1.0.3, z3 4.8.12 for unknowns / thorough cross-check), spec vocabulary "
        "in contracts/spec.py, modelled CPython builtins, cp1252 codec as pointwise external tables. Assumed: mathematical ints, no aliasing "
        "between distinct parameters, invariant induction over histories and composition of pair lemmas as meta-steps. Full list in each evidence file.")
checks = []
for pid, (lvl, text) in sorted(P.items()):
    checks.append({
        "property_id": pid,
        "quick_cmd": f"python3-vt -m checks {pid} --tier quick",
        "thorough_cmd": f"python3-vt -m checks {pid} --tier thorough",
        "evidence_file": f"/verif/evidence/{pid}.json",
        "replay_cmd_template": "python3-vt -m checks.replay {path}",
        "engine": "pyvc-E1",
        "level_claimed": {"category": lvl, "text": text, "design_ref": "DESIGN.md section 5"},
        "level_note": NOTE,
        "technique": "contract-based deductive verification: sidecar pre/postconditions, loop and class invariants, lemma functions; VCs generated from the real source's ast, discharged by z3/cvc5",
    })
for pid, text in sorted(P2.items()):
    checks.append({
        "property_id": pid,
        "quick_cmd": f"python3-vt -m checks {pid} --tier quick",
        "thorough_cmd": f"python3-vt -m checks {pid} --tier thorough",
        "evidence_file": f"/verif/evidence/{pid}.json",
        "replay_cmd_template": "python3-vt -m checks.replay {path}",
        "engine": "pyvc-E2",
        "level_claimed": {"category": "proof", "text": text + ". For each program the proof covers all values; the set of programs is enumerated (bound in evidence).", "design_ref": "DESIGN.md sections 1.2, 3, 4, 5"},
        "level_note": NOTE2,
        "technique": "contract-based deductive verification per generated program: contracts derived from the XML by xmlsem, VCs from the ast of the emitted classes, z3 (sequences, uninterpreted folds with ground unfolding)",
    })
P3 = {
 "C01": ("exploration", "PROVED per program for classes with a static piece structure, BOUNDED for the rest: RT_T is discharged deductively (emitted deserialize, nested/case classes inlined, executed over the interpreted bytes of WIRE_T(obj) with a concrete-structured reader; integer and string codecs enter as instances of the proved C07/C04/C08 lemmas) for all in-domain classes without symbolic-count arrays (counts in evidence under proved_for_fixed_size_classes); classes with length-field / read-to-end arrays need an induction that is not built and are decided by runtime round trips of seeded valid values over every wire-unambiguous class of the realistic corpus and the enumerated specs. The ingredients it rests on are proved elsewhere: C02 (bytes = WIRE_T), C03 (deserialize = reading rules), C04/C06/C07 (writer->reader pairs, chunk isolation, codec)",
         "runtime-checked round-trip contract on the real generated classes (bounded stand-in for the contract-based proof)"),
 "C14": ("exploration", "BOUNDED stand-in (not proved): ProtocolEnumMeta.__call__ is six lines delegating to CPython's EnumMeta.__call__ / int.__new__, whose behaviour a VC could only assume; its runtime contract (the statement, clause by clause) is evaluated on hand-written and generated enums x integers (plain ints and ints that are not: the enum's own members, bools, members of other enums, int-subclass and Unrecognized instances) under both installed interpreters",
         "runtime-checked contract on the real ProtocolEnumMeta.__call__ under CPython 3.11 and 3.12 (bounded stand-in)"),
 "C17": ("exploration", "PROVED leaf guards and per-step flag threading + BOUNDED composition: 23 generator functions under contract and discharged (the eight FieldCodeGenerator._validate_* as `raises <=> RULE`, _check_optional_field, _generate_break, _make_packet_suffix, _create_type_with_specified_length; generate_instruction, _generate_field/_array/_length, SwitchCodeGenerator.generate_case and TypeFactory.get_type as one-directional must_raise contracts with opaque calls; FieldCodeGenerator._get_type_length; placement transfer contracts on generate_instruction, _generate_field/_array/_length, _generate_dummy, _generate_chunked, _generate_switch, generate_case, generate_case_data_type; the frame assumption of the opaque calls is scanned syntactically on every run); that the flags an instruction sees are those of its syntactic position is the composition of these steps (meta-step), and 'wherever it occurs' as a whole is bounded: the real generator is run on the statement's rule catalogue x nesting positions x files and on every enumerated instruction sequence the independent rule reader xmlsem.wellformed finds ill-formed; it must raise and write no module for the offending class",
         "runtime post-condition of the real generator over a rule-violation catalogue (bounded stand-in)"),
 "C18": ("exploration", "BOUNDED stand-in (not proved): generation over valid trees (realistic, cross-referencing, sibling-only, with directory gaps, enumerated) x hash seeds x shuffled / ascending / descending directory enumeration x both interpreters x pre-populated output must be byte-identical, complete and importable with every declared type exported; the code carrying this (set iteration, sorting, list surgery during iteration, os.walk, file writes) is outside the VC generator's fragment",
         "runtime-checked contracts on ProtocolCodeGenerator.generate / CodeBlock.to_string outputs (bounded stand-in)"),
}
for pid, (lvl, text, tech) in sorted(P3.items()):
    checks.append({
        "property_id": pid,
        "quick_cmd": f"python3-vt -m checks {pid} --tier quick",
        "thorough_cmd": f"python3-vt -m checks {pid} --tier thorough",
        "evidence_file": f"/verif/evidence/{pid}.json",
        "replay_cmd_template": "python3-vt -m checks.replay {path}",
        "engine": "E3-runtime-contracts",
        "level_claimed": {"category": lvl, "text": text, "design_ref": "DESIGN.md section 5"},
        "level_note": "Bounded: explores the stated finite set of cases only; nothing here is counted as proved. Oracle: xmlsem (trusted specification).",
        "technique": tech,
    })
import os
extra = []
if os.path.exists('/verif/.work/manifest_extra.json'):
    extra = json.load(open('/verif/.work/manifest_extra.json'))
m = {
 "version": 1,
 "setup_cmd": "python3-vt -m checks.setup",
 "hooks": {"guard": "EOLIB_VERIF", "enable": "none: contracts are sidecar files in /verif; no file of /repo is instrumented", 
           "baseline_off_cmd": "cd /repo && /venv/bin/python -m pytest -ra -q -p no:cacheprovider --timeout=900 --continue-on-collection-errors",
           "source_commits": [], "add_only": True},
 "engines": [
   {"name": "pyvc-E1", "path": "/verif/pyvc", "serves_properties": sorted(P), "kind_free_text": "ast->VC symbolic executor for a Python fragment + sidecar contracts + z3/cvc5 portfolio; native runtime evaluation of the same contract text for replay"},
   {"name": "E3-runtime-contracts", "path": "/verif/xmlsem/natcheck.py", "serves_properties": ["C01", "C14", "C17", "C18"], "kind_free_text": "runtime-checked contracts on the real code (bounded stand-in where the VC generator does not reach); also the replay vehicle of E1/E2 counter-models"},
   {"name": "pyvc-E2", "path": "/verif/pyvc/gen_verify.py", "serves_properties": sorted(P2), "kind_free_text": "runs /repo's real generator on enumerated spec trees and verifies every emitted class against XML-derived contracts (xmlsem); native replay on the real generated code"},
 ],
 "checks": checks + extra.get("checks", []) if isinstance(extra, dict) else checks,
 "notes": "fix: commits in /repo: bde54fa (C11 _mod), 52a31ac (C02 boolean attributes), aadc2ea (C03 optional arrays), 2548e49 (C17 named hard-coded values), 4ae0d01 (C19 blob immutability), 8e5e042 (C02 reached_missing_optional read before assignment), 2169421 (C18 empty objects emitted with an empty try body), d697405 (C02 missing-optional flag not reset at a break), b6be367 (C18 comments with triple quotes / backslashes). Known findings recorded, not repaired (DESIGN 12.3): C03, a read-to-end array of a chunk-first bounded element outside a chunked section never terminates on 0xFF; C03, an optional length field referenced from a later chunk makes deserialize raise TypeError. See known_findings.json and DESIGN.md.",
 "not_applicable": (extra.get("not_applicable") if isinstance(extra, dict) else None) or [
   {"property_id": p, "reason": "check under construction in this build phase (see DESIGN.md section 5); not claimed yet"} for p in
   []] + [
   {"property_id": "C20", "reason": "import-system namespace property: no function pre/post state a contract could speak about; a symbolic namespace evaluator would be a model (other family), a runtime check plain testing - DESIGN.md section 8"}],
}
json.dump(m, open('/verif/MANIFEST.json','w'), indent=1)
