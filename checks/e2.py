"""E2 pipeline shared by the generated-code properties (C02, C03, C15, C16, C19):
spec corpus + enumerated specs -> /repo's real generator -> per-class obligations -> z3."""
import json
import multiprocessing as mp
import os
import random
import shutil
import sys
import tempfile
import time
import traceback

VERIF = os.path.dirname(os.path.dirname(os.path.abspath(__file__)))
if VERIF not in sys.path:
    sys.path.insert(0, VERIF)

from xmlsem import ir as X, specgen as G, wellformed as W          # noqa: E402

REALISTIC = os.path.join(VERIF, "specs", "realistic")
WHAT_FOR = {
    "C02": ("init", "serialize", "shape"),
    "C16": ("serialize",),
    "C15": ("serialize", "deserialize"),
    "C19": ("init", "shape", "deserialize"),
    "C03": ("deserialize",),
    "C01": ("roundtrip",),
}


def obligation_properties(name, kind, info, fn):
    """which properties an obligation belongs to"""
    p = info.get("property")
    cls = fn.rsplit(".", 1)[0]
    nestable = "." in cls or not cls.endswith(("ClientPacket", "ServerPacket"))
    if fn.endswith(".serialize"):
        if kind == "mode-restored" and nestable:
            # the bytes of every object that holds an instance of this class are proved from this class's summary, which
            # includes "returns with the mode it was entered with": where that fails, what an enclosing object writes
            # afterwards is sanitised wrongly - C02's concern as much as C15's
            return {"C15", "C02"}
        if kind in ("mode-restored", "mode-restored-on-raise"):
            return {"C15"}
        if kind in ("wire", "accepts-valid"):
            return {"C02"}
        if kind in ("refuses-invalid", "no-exc", "none-use", "index", "writer-pre"):
            # an exception class that is neither SerializationError nor the writer's ValueError is wrong for invalid
            # objects (C16) and for valid ones (C02: the bytes are never produced)
            return {"C16"} | ({"C02"} if kind in ("index", "none-use", "no-exc") else set())
        if kind == "frame":
            return {"C19"}
        return {"C02", "C16"}           # loop invariants carry both the bytes and the validity prefix
    if fn.endswith(".roundtrip"):
        return {"C01"}
    if fn.endswith(".deserialize"):
        if kind == "mode-restored" and nestable:
            return {"C15", "C03"}       # likewise: what an enclosing object reads afterwards depends on the mode handed back
        if kind in ("mode-restored", "mode-restored-on-raise"):
            return {"C15"}
        if kind == "immutable-field":
            return {"C19"}
        return {"C03"}
    if fn.endswith(".__init__"):
        if kind in ("ctor-length", "ctor-literal"):
            return {"C02", "C19"}
        return {"C19", "C03"} if kind in ("no-exc", "none-use") else {"C19"}
    if fn.endswith(".<class>"):
        return {"C02"} if kind == "packet" else {"C19"}
    return {p} if p else set()


def classify(body):
    doc = "<protocol>" + G.SUPPORT + f'<struct name="T">{body}</struct></protocol>'
    try:
        spec = X.load_strings({"": doc})
        ok, why = W.well_formed(spec)
        if not ok:
            return "ill", why
        d = W.degenerate(spec)
        if d:
            return "degenerate", d
        return "ok", None
    except X.SpecError as e:
        return "ill", str(e)


def select_specs(tier, seed):
    """(ident, body) list of enumerated specs for this tier"""
    out = list(G.enumerate_specs(1))
    if tier == "quick":
        out += G.sample_specs(2, 1000, seed)
    else:
        # every pair of the core templates at every position, a large sample of all pairs, a sample of triples
        out += list(G.enumerate_specs(2, templates=G.CORE))
        out += G.sample_specs(2, 10000, seed)
        out += G.sample_specs(3, 2000, seed)
    seen = set()
    uniq = []
    for ident, body in out:
        if ident not in seen:
            seen.add(ident)
            uniq.append((ident, body))
    return uniq


def _work_batch(args):
    """one worker: generate + verify one spec tree.  Returns a picklable summary."""
    kind, payload, what, repo_root, timeout_ms = args
    os.environ["VERIF_REPO"] = repo_root
    from pyvc import repo as prepo
    prepo.REPO = repo_root
    from pyvc.gen_verify import ProgramVerifier, run_generator
    from pyvc.exec import Unsupported
    import z3
    tmp = tempfile.mkdtemp(prefix="verif-e2-")
    res = {"kind": kind, "classes": 0, "obligations": [], "unsupported": [], "generator_error": None,
           "idents": {}, "solver_s": 0.0}
    try:
        if kind == "tree":
            spec_dir = payload
        else:
            spec_dir = os.path.join(tmp, "spec")
            pk = [("Act", payload[0][2]), ("Act2", payload[-1][2])]
            G.write_tree(spec_dir, [(n, b) for n, _, b in payload], packet_bodies=pk)
            res["idents"] = {n: ident for n, ident, _ in payload}
            res["idents"]["FamActClientPacket"] = "packet:" + payload[0][1]
            res["idents"]["FamAct2ClientPacket"] = "packet:" + payload[-1][1]
        out_dir = os.path.join(tmp, "out")
        rc, so, se = run_generator(spec_dir, out_dir)
        if rc != 0:
            res["generator_error"] = se.strip().splitlines()[-1] if se.strip() else "generator failed"
            return res
        pv = ProgramVerifier(spec_dir, out_dir)
        wanted = None
        if kind != "tree":
            wanted = set(res["idents"])
        for name, decl in pv.decls.items():
            top = name.split(".")[0]
            if wanted is not None and top not in wanted:
                continue
            res["classes"] += 1
            obls = []
            for w in what:
                try:
                    if w == "shape":
                        obls += pv.shape_obligations(decl)
                    else:
                        ex = getattr(pv, "verify_" + w)(decl)
                        if ex is None:          # class outside this verification's fragment (roundtrip)
                            res.setdefault("skipped", []).append((name, w))
                            continue
                        obls += ex.order
                except Unsupported as u:
                    res["unsupported"].append((name, w, str(u)))
                except X.SpecError as u:
                    res["unsupported"].append((name, w, "xmlsem: " + str(u)))
                except SyntaxError as u:
                    # the emitted module is not valid Python: nothing to verify; a violation of C02 / C18 for a valid spec
                    res["unsupported"].append((name, w, "emitted module does not compile: " + str(u)[:160]))
                    res.setdefault("noncompiling", []).append((name, str(u)[:200]))
                except (z3.Z3Exception, KeyError, AttributeError, TypeError, IndexError, ValueError, AssertionError) as u:
                    # the VC generator itself tripped over this class: not proved, decided by the bounded stand-in
                    res["unsupported"].append((name, w, "verifier error: " + repr(u)[:200]))
            def solve_all(obls):
                """solve the obligations of one class in a forked child that streams results back; the child beats
                before every solver attempt, and a child silent for longer than any attempt may take is killed (z3's
                sequence solver does not always honour its timeout): that obligation is `unknown`, a new child
                takes the rest"""
                import pickle
                import select
                import signal
                import struct
                HARD = 45.0
                out_ = []
                i = 0
                while i < len(obls):
                    rfd, wfd = os.pipe()
                    pid = os.fork()
                    if pid == 0:
                        code = 0
                        try:
                            os.close(rfd)

                            def send(msg):
                                b = pickle.dumps(msg)
                                os.write(wfd, struct.pack("<I", len(b)) + b)
                            res["_beat"] = lambda budget=HARD: send(("beat", budget))
                            for j in range(i, len(obls)):
                                t = solve_or_skip(obls[j])
                                send(("res", j, t, res.get("hard", 0), res.get("refuted", 0), res["solver_s"]))
                        except BaseException:
                            code = 1
                        finally:
                            os._exit(code)
                    os.close(wfd)

                    allow = [HARD]

                    def recv():
                        """one framed message, None on silence beyond the announced budget, EOFError when the child is gone"""
                        buf = b""
                        need = 4
                        head = None
                        while True:
                            ready, _, _ = select.select([rfd], [], [], allow[0])
                            if not ready:
                                return None
                            chunk = os.read(rfd, need - len(buf))
                            if not chunk:
                                raise EOFError
                            buf += chunk
                            if len(buf) == need:
                                if head is None:
                                    head = struct.unpack("<I", buf)[0]
                                    buf, need = b"", head
                                    if need == 0:
                                        return pickle.loads(b"")
                                else:
                                    return pickle.loads(buf)
                    try:
                        while i < len(obls):
                            try:
                                msg = recv()
                            except EOFError:
                                msg = "dead"
                            if msg is None or msg == "dead":
                                ob = obls[i]
                                try:
                                    os.kill(pid, signal.SIGKILL)
                                except OSError:
                                    pass
                                out_.append((ob.name, ob.kind, ob.fn, "unknown",
                                             "z3-5.1[killed: silent beyond the hard budget]" if msg is None else "z3-5.1[solver process died]",
                                             allow[0] if msg is None else 0.0,
                                             {k: v for k, v in ob.info.items() if k in ("why", "property", "clause")}, None))
                                if ob.kind != "variant":
                                    res["hard"] = res.get("hard", 0) + 1
                                res["solver_s"] += allow[0] if msg is None else 0.0
                                i += 1
                                break
                            if msg[0] == "beat":
                                allow[0] = msg[1]
                                continue
                            _, j, t, hard, refuted, solver_s = msg
                            out_.append(t)
                            res["hard"], res["refuted"], res["solver_s"] = hard, refuted, solver_s
                            i = j + 1
                    finally:
                        os.close(rfd)
                        try:
                            os.waitpid(pid, 0)
                        except OSError:
                            pass
                return out_

            def solve_or_skip(ob):
                if res.get("refuted", 0) >= 8:
                    # this batch already has eight obligations refuted with validated counter-models: the
                    # rest is not solved (status `skipped`: neither discharged nor reported)
                    return (ob.name, ob.kind, ob.fn, "skipped", "-", 0.0,
                            {k: v for k, v in ob.info.items() if k in ("why", "property", "clause")}, None)
                t = solve_one(ob)
                if t[3] == "sat":
                    # only refutations of the property being checked end the batch early: one of them is reported, the
                    # skipped rest adds nothing.  (A refuted obligation of another property - say every `mode-restored`
                    # while C02 is being checked - must not keep this property's obligations from being solved.)
                    prop = os.environ.get("VERIF_E2_PROP", "")
                    if not prop or prop in obligation_properties(ob.name, ob.kind, ob.info, ob.fn):
                        res["refuted"] = res.get("refuted", 0) + 1
                return t

            def solve_one(ob):
                t0 = time.time()
                g = z3.simplify(ob.goal)
                if z3.is_true(g):
                    status, backend, model = "unsat", "simplify", None
                else:
                    def attempt(seed):
                        soft = 4000 if ob.kind.startswith("roundtrip") else timeout_ms
                        res.get("_beat", lambda b=0: None)(soft / 1000.0 + 10.0)
                        s = z3.Solver()
                        s.set("timeout", 4000 if ob.kind.startswith("roundtrip") else timeout_ms)
                        if seed:
                            s.set("random_seed", seed)
                        for a in ob.assumptions:
                            s.add(a)
                        s.add(z3.Not(ob.goal))
                        r = s.check()
                        if r == z3.sat:
                            # z3's sequence solver can answer `sat` with a model that does not satisfy the
                            # query (seen: same formula sat in one call, unsat in the next): a sat answer only
                            # counts when its model validates
                            try:
                                m = s.model()
                                ok = all(z3.is_true(m.eval(a, model_completion=True)) for a in ob.assumptions) \
                                    and z3.is_true(m.eval(z3.Not(ob.goal), model_completion=True))
                            except Exception:
                                ok = False
                            if not ok:
                                return z3.unknown, None
                            return r, m
                        return r, None
                    r, m = attempt(0)
                    tries = 0
                    # retries and second opinions are for the occasional flaky query; once several obligations of
                    # this batch stayed undecided after all of them the batch is not green anyway
                    patient = res.get("hard", 0) < 3
                    while patient and r == z3.unknown and tries < (7 if ob.kind.startswith("roundtrip") else 4):
                        tries += 1
                        r, m = attempt(tries * 17)
                    status = str(r)
                    backend = "z3-5.1" + (f"[retry {tries}]" if tries else "")
                    model = None
                    if r == z3.sat:
                        try:
                            model = {d.name(): str(m[d])[:80] for d in m.decls() if d.arity() == 0}
                            model = dict(list(model.items())[:25])
                        except Exception:
                            model = None
                    elif r == z3.unknown and patient:
                        # second opinion on the SMT-LIB text
                        from pyvc import solve
                        solve._OBLS = [ob]
                        solve._AXIOMS = []
                        for which in ("z3-4.8", "cvc5"):
                            res.get("_beat", lambda b=0: None)(32.0)
                            _, _, r2, _ = solve._cli((0, which, 20))
                            if r2 == "unsat":       # a CLI `sat` on a sequence query cannot be validated here: not trusted
                                status, backend = r2, which
                                break
                dt = time.time() - t0
                res["solver_s"] += dt
                if status == "unknown" and ob.kind != "variant":
                    # (termination obligations at the call sites of the known finding stay `unknown` by nature)
                    res["hard"] = res.get("hard", 0) + 1
                return (ob.name, ob.kind, ob.fn, status, backend, round(dt, 4),
                        {k: v for k, v in ob.info.items() if k in ("why", "property", "clause")}, model)
            solved = solve_all(obls)
            # alternative loop decomposition for separating delimiters (see verify_serialize)
            if "serialize" in what and any(t[3] != "unsat" and t[2].endswith(".serialize") and "loop" in t[0] for t in solved):
                try:
                    ex2 = pv.verify_serialize(decl, variant=1)
                    alt = solve_all(ex2.order)
                    if all(t[3] == "unsat" for t in alt):
                        solved = [t for t in solved if not t[2].endswith(".serialize")] + alt
                except (Unsupported, X.SpecError):
                    pass
            res["obligations"] += solved
        return res
    except Exception as e:
        res["generator_error"] = "checker crash: " + repr(e) + "\n" + traceback.format_exc()[-1500:]
        res["crash"] = True
        return res
    finally:
        shutil.rmtree(tmp, ignore_errors=True)


def run_pipeline(what, tier, seed, repo_root, batch_size=25, with_enumerated=True, prop=None):
    """returns dict with per-class results"""
    t0 = time.time()
    specs = select_specs(tier, seed) if with_enumerated else []
    accept, ill, degenerate = [], [], []
    for ident, body in specs:
        k, why = classify(body)
        if k == "ok":
            accept.append((ident, body))
        elif k == "ill":
            ill.append((ident, body, why))
        else:
            degenerate.append((ident, body, why))
    os.environ["VERIF_E2_PROP"] = prop or ""         # read by the forked workers: whose refutations end a batch early
    tasks = [("tree", REALISTIC, what, repo_root, 10000)]
    batches = []
    for i in range(0, len(accept), batch_size):
        chunk = accept[i:i + batch_size]
        payload = [(f"T{i + j}", ident, body) for j, (ident, body) in enumerate(chunk)]
        batches.append(payload)
        tasks.append(("batch", payload, what, repo_root, 10000))
    ctx = mp.get_context("fork")
    results = []
    with ctx.Pool(min(16, os.cpu_count() or 1)) as pool:
        pending = list(tasks)
        while pending:
            outs = pool.map(_work_batch, pending, chunksize=1)
            nxt = []
            for task, out in zip(pending, outs):
                # a batch the generator refused: split it to find the offending spec(s)
                if out["generator_error"] and task[0] == "batch" and len(task[1]) > 1 and not out.get("crash"):
                    mid = len(task[1]) // 2
                    nxt.append(("batch", task[1][:mid], what, repo_root, 10000))
                    nxt.append(("batch", task[1][mid:], what, repo_root, 10000))
                else:
                    results.append((task, out))
            pending = nxt
    return {"results": results, "accept": accept, "ill": ill, "degenerate": degenerate,
            "wall_s": time.time() - t0}
