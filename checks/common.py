"""Shared driver for the E1 (library) properties: generate obligations from the repository's
current source, discharge, replay / search natively on anything not discharged, write evidence.

Exit codes: 0 held / 1 violation (VIOLATION line) / 2 undecided / 3 checker error."""
import json
import os
import random
import sys
import time
import traceback

VERIF = os.path.dirname(os.path.dirname(os.path.abspath(__file__)))
if VERIF not in sys.path:
    sys.path.insert(0, VERIF)

from pyvc import repo, solve                                    # noqa: E402
from pyvc.contracts import Registry, Verifier                   # noqa: E402
from pyvc.exec import Unsupported                               # noqa: E402
from pyvc.native import Native, unshow, _show                   # noqa: E402

BASE_ASSUMPTIONS = [
    "Python ints are mathematical integers (exact for CPython); // and % have floor semantics",
    "x & (2^k-1) is encoded as x mod 2^k and x ^ 2^k as a one-bit flip (valid for every Python int)",
    "bytes/str/tuple values are immutable; memoryview(data) is a read-only view of data nobody mutates",
    "distinct parameters do not alias (each mutable argument is its own object)",
    "exception messages are not modelled (class only); evaluation order is left to right",
    "extraction drops only docstrings, annotations (used as sort hints), print() and f-string text",
    "class invariants: established by __init__ and preserved by every method is proved per method; "
    "the induction over call histories is the standard meta-argument and is not re-proved",
]
TRUSTED_BASE = [
    "pyvc (this repository's ast->VC translator, /verif/pyvc)",
    "z3 5.1.0 (python API); thorough tier re-checks on cvc5 1.0.3 and z3 4.8.12 CLIs",
    "spec functions in /verif/contracts/spec.py (the property statements' vocabulary)",
    "CPython builtins modelled by contract: bytearray/bytes construction, append, extend, reverse, copy, "
    "find(one byte), slicing, len, min, max",
]


def load_known(prop):
    path = os.path.join(VERIF, "known_findings.json")
    if not os.path.exists(path):
        return []
    with open(path) as f:
        data = json.load(f)
    return [e for e in data.get("findings", []) if e.get("property") == prop]


def finding_matches(entry, function, inputs):
    if entry.get("status") == "fixed":
        return False            # fixed entries suppress nothing
    if entry.get("function") and entry["function"] != function:
        return False
    want = entry.get("input")
    if want is None:
        return entry.get("function") == function and entry.get("any_input", False)
    return inputs is not None and all(inputs.get(k) == v for k, v in want.items())


def model_to_kwargs(model, sorts):
    """Rebuild concrete arguments from a counter-model (names are '<param>!<n>')."""
    if not model:
        return None
    out = {}
    for p, sort in sorts:
        if sort in ("int", "nat"):
            ks = sorted((k for k in model if k.startswith(p + "!")), key=lambda k: int(k.split("!")[1]))
            if not ks or not isinstance(model[ks[0]], int):
                return None
            out[p] = model[ks[0]]
        elif sort == "bool":
            ks = sorted((k for k in model if k.startswith(p + "!")), key=lambda k: int(k.split("!")[1]))
            out[p] = bool(model[ks[0]]) if ks else False
        elif sort in ("bytes", "bytearray", "str", "memoryview"):
            arrs = sorted((k for k in model if k.startswith(p + "!") and isinstance(model[k], list)),
                          key=lambda k: int(k.split("!")[1]))
            lens = sorted((k for k in model if k.startswith(p + "_len!")), key=lambda k: int(k.split("!")[1]))
            if not lens:
                return None
            n = model[lens[0]]
            cells = model[arrs[0]] if arrs else []
            if n is None or n < 0 or n > 48:
                return None
            vals = [(cells[i] if i < len(cells) and cells[i] is not None else 0) for i in range(n)]
            if sort == "str":
                try:
                    out[p] = "".join(chr(v) for v in vals)
                except ValueError:
                    return None
            else:
                if any(v < 0 or v > 255 for v in vals):
                    return None
                out[p] = bytearray(vals) if sort == "bytearray" else bytes(vals)
        else:
            return None
    return out


class PropertyCheck:
    def __init__(self, prop, cfg, tier, seed):
        self.prop = prop
        self.cfg = cfg
        self.tier = tier
        self.seed = seed
        self.t0 = time.time()
        self.violations = []
        self.known_hits = []
        self.undecided = []
        self.notes = []

    def tier_is_unchanged_tree_expected(self):
        return False

    # ---- obligations
    def generate(self):
        repo.reset()
        self.reg = Registry(self.cfg["modules"])
        if "setup" in self.cfg:
            self.cfg["setup"](self.reg)
        ver = Verifier(self.reg)
        self.obls = []
        self.covers = []
        self.functions = []
        self.outside = []
        self.assumptions_used = set()
        self.paths = 0
        only = self.cfg.get("functions")
        for q, con in self.reg.contracts.items():
            if con.trusted or con.inline:
                continue
            if only is not None and q not in only:
                continue
            try:
                repo.lookup(q)
            except KeyError:
                # the function this contract is written on is no longer in the source (removed, renamed, moved): nothing
                # can be proved or searched for it - undecided, never a silent pass and not a checker crash
                self.missing = getattr(self, "missing", []) + [q]
                continue
            try:
                ex = ver.verify_function(con)
            except Unsupported as u:
                # the function has left the VC generator's fragment: bounded stand-in (runtime contract
                # search), labelled as such, never counted as proved
                self.outside.append({"function": q, "reason": str(u)})
                continue
            fi = repo.lookup(q)
            if not ex.order:
                raise RuntimeError(f"vacuity: function {q} produced no obligations")
            self.functions.append({"function": q, "file": os.path.relpath(fi.module.path, repo.REPO),
                                   "sha256": fi.module.sha, "obligations": len(ex.order), "paths": ex.paths})
            self.obls += ex.order
            self.covers += ex.covers
            self.assumptions_used |= ex.assumptions_used
            self.paths += ex.paths
        # "lift": entry points re-verified with named callees inlined, so that a defect inside a
        # callee also yields a counter-model in terms of the entry point's own inputs
        for entry, callees in self.cfg.get("lift", {}).items():
            self.reg.force_inline = set(callees)
            try:
                ex = ver.verify_function(self.reg.get(entry))
            finally:
                self.reg.force_inline = set()
            for ob in ex.order:
                ob.name += "+inlined"
            self.functions.append({"function": entry, "variant": "callees inlined: " + ", ".join(callees),
                                   "obligations": len(ex.order), "paths": ex.paths,
                                   "sha256": repo.lookup(entry).module.sha})
            self.obls += ex.order
            self.covers += ex.covers
            self.paths += ex.paths
        self.lemma_names = []
        for q in self.reg.lemmas:
            try:
                ex = ver.verify_lemma(q)
            except Unsupported as u:
                self.outside.append({"function": q, "reason": str(u)})
                continue
            if not ex.order:
                raise RuntimeError(f"vacuity: lemma {q} produced no obligations")
            self.functions.append({"function": q, "file": "verif:" + q.rsplit(".", 1)[0], "lemma": True,
                                   "obligations": len(ex.order), "paths": ex.paths})
            self.lemma_names.append(q)
            self.obls += ex.order
            self.covers += ex.covers
            self.assumptions_used |= ex.assumptions_used
            self.paths += ex.paths
        if not self.obls:
            raise RuntimeError("vacuity: zero obligations")
        if self.outside and self.tier_is_unchanged_tree_expected():
            pass
        # canary: a deliberately false obligation must come back sat
        import z3
        from pyvc.exec import Obligation
        x = z3.Int("canary")
        self.canary = Obligation("canary:false", "canary", [x >= 0], x > 0, {}, "canary")

    def discharge(self):
        timeout = 20000 if self.tier == "quick" else 120000
        cross = self.tier == "thorough"
        allob = self.obls + [self.canary]
        res, cov = solve.discharge(allob, self.reg.axioms, timeout_ms=timeout, covers=self.covers, cross=cross,
                                   cross_timeout_s=20 if self.tier == "quick" else 60)
        self.canary_res = res[-1]
        self.results = res[:-1]
        self.cover_res = cov
        if self.canary_res["status"] != "sat":
            raise RuntimeError("vacuity canary was not refuted: " + str(self.canary_res))
        # cover: every function must have at least one satisfiable exit path
        by_fn = {}
        for (name, _), r in zip(self.covers, cov):
            by_fn.setdefault(name.split(":cover:")[0], []).append(r)
        for fn, rs in by_fn.items():
            if "sat" not in rs and "unknown" not in rs:
                raise RuntimeError(f"vacuity: no feasible exit path in {fn} (contradictory requires?)")

    # ---- native side
    def native(self):
        if not hasattr(self, "_native"):
            self._native = Native(self.cfg["modules"], repo.REPO)
        return self._native

    def sorts_for(self, fn):
        if fn in self.reg.lemmas:
            fi, _ = self.reg.lemmas[fn]
            return [(p, self.reg.norm_sort(fi.annotation(p), fi.module) if fi.annotation(p) else "int") for p in fi.params]
        fi = repo.lookup(fn)
        return [(p, self.reg.sort_of_param(self.reg.get(fn), fi, p)) for p in fi.params]

    def triage(self):
        """For every obligation that is not discharged: replay the counter-model on the real code,
        then a concrete search; classify as violation / undecided."""
        rng = random.Random(self.seed)
        seen_fn = {}
        for ob, r in zip(self.obls, self.results):
            if r["status"] == "unsat":
                continue
            fn = ob.fn
            key = (fn, r["status"])
            model = r.get("extra") if r["status"] == "sat" else None
            found = None
            detail = None
            tried = 0
            nat = self.native()
            sorts = self.sorts_for(fn)
            seeds = []
            mk = model_to_kwargs(model, sorts) if model else None
            if mk is not None:
                seeds.append(mk)
            budget = self.cfg.get("search_budget", 3000 if self.tier == "quick" else 30000)
            try:
                if fn in seen_fn:
                    found, detail, tried = seen_fn[fn]
                    if seeds and found is None:
                        if fn in self.reg.lemmas:
                            found, detail, tried = nat.search_lemma(fn, self.reg, rng, budget=0, seeds=seeds)
                        else:
                            found, detail, tried = nat.search(fn, self.reg, rng, budget=0, seeds=seeds)
                else:
                    if fn in self.reg.lemmas:
                        found, detail, tried = nat.search_lemma(fn, self.reg, rng, budget=budget, seeds=seeds)
                    else:
                        found, detail, tried = nat.search(fn, self.reg, rng, budget=budget, seeds=seeds)
                    seen_fn[fn] = (found, detail, tried)
            except Exception as e:
                self.notes.append(f"native search for {fn} failed: {e!r}")
            rec = {"obligation": ob.name, "kind": ob.kind, "function": fn, "solver_status": r["status"],
                   "backend": r["backend"], "clause": ob.info.get("clause"), "why": ob.info.get("why"),
                   "counter_model": model, "native_input": found, "native_detail": detail, "native_tried": tried}
            if r["status"] in ("sat", "disagree") or found is not None:
                if r["status"] == "disagree" and found is None:
                    self.undecided.append(rec)
                else:
                    self.violations.append(rec)
            else:
                self.undecided.append(rec)

    def bounded_standins(self):
        """functions outside the fragment: search their runtime contract natively (bounded)"""
        rng = random.Random(self.seed + 2)
        nat = self.native()
        budget = 4000 if self.tier == "quick" else 60000
        for o in self.outside:
            fn = o["function"]
            try:
                if fn in self.reg.lemmas:
                    found, detail, tried = nat.search_lemma(fn, self.reg, rng, budget=budget)
                else:
                    found, detail, tried = nat.search(fn, self.reg, rng, budget=budget)
            except Exception as e:
                o["bounded"] = f"native search failed to run: {e!r}"
                self.undecided.append({"obligation": fn + ":outside-fragment", "solver_status": "n/a", "native_tried": 0})
                continue
            o["bounded"] = f"{tried} runtime-contract evaluations, " + ("FAILURE" if found is not None else "no failure")
            print(f"BOUNDED-STANDIN function={fn} (outside the fragment: {o['reason'][:120]}): {o['bounded']}")
            if found is not None:
                self.violations.append({"obligation": fn + ":runtime-contract(bounded stand-in)", "kind": "runtime",
                                        "function": fn, "solver_status": "n/a", "backend": "native", "clause": None,
                                        "why": "function outside the fragment; its runtime contract fails",
                                        "counter_model": None, "native_input": found, "native_detail": detail,
                                        "native_tried": tried})

    def native_smoke(self):
        """Small CPython differential on every run: the runtime contracts evaluated on the real
        functions (guards the translator; a failure here with all proofs green is an engine defect
        or a contract/code mismatch and is reported as a violation with its input)."""
        budget = self.cfg.get("smoke", 300 if self.tier == "quick" else 20000)
        rng = random.Random(self.seed + 1)
        nat = self.native()
        self.native_evals = 0
        proved_fns = {f["function"] for f in self.functions}
        failing_fns = {v["function"] for v in self.violations}
        for fn in sorted(proved_fns - failing_fns):
            try:
                if fn in self.reg.lemmas:
                    found, detail, tried = nat.search_lemma(fn, self.reg, rng, budget=budget)
                else:
                    found, detail, tried = nat.search(fn, self.reg, rng, budget=budget)
            except Exception as e:
                self.notes.append(f"native smoke for {fn} skipped: {e!r}")
                continue
            self.native_evals += tried
            if found is not None:
                self.violations.append({"obligation": fn + ":runtime-contract", "kind": "runtime", "function": fn,
                                        "solver_status": "n/a", "backend": "native", "clause": None, "why": None,
                                        "counter_model": None, "native_input": found, "native_detail": detail,
                                        "native_tried": tried})

    # ---- reporting
    def write_replay(self, n, rec):
        d = os.path.join(VERIF, "replays")
        os.makedirs(d, exist_ok=True)
        path = os.path.join(d, f"{self.prop}-{n}.json")
        shas = {f["function"]: f.get("sha256") for f in self.functions}
        body = {"property": self.prop, "obligation": rec["obligation"], "function": rec["function"],
                "modules": self.cfg["modules"], "source_sha256": shas.get(rec["function"]),
                "inputs": rec["native_input"], "observed": rec["native_detail"],
                "no_failing_input_found": rec["native_input"] is None,
                "verifier": {"status": rec["solver_status"], "backend": rec["backend"], "clause": rec["clause"],
                             "why": rec["why"], "counter_model": rec["counter_model"]},
                "is_lemma": rec["function"] in self.reg.lemmas}
        with open(path, "w") as f:
            json.dump(body, f, indent=1, default=str)
        return path

    def evidence(self, extra_cov=None):
        by_backend = {}
        for r in self.results:
            if r["status"] == "unsat":
                by_backend[r["backend"]] = by_backend.get(r["backend"], 0) + 1
        discharged = sum(1 for r in self.results if r["status"] == "unsat")
        samples = []
        for ob, r in list(zip(self.obls, self.results))[:: max(1, len(self.obls) // 12)]:
            samples.append({"obligation": ob.name, "clause": ob.info.get("clause"), "status": r["status"],
                            "backend": r["backend"], "seconds": round(r["time"], 3)})
        cov = {
            "obligations": len(self.obls),
            "discharged": discharged,
            "checker_cmd": f"python3-vt -m checks {self.prop} --tier {self.tier}",
            "trusted_base": TRUSTED_BASE + self.cfg.get("trusted", []),
            "by_backend": by_backend,
            "solver_seconds": round(sum(r["time"] for r in self.results), 2),
            "slowest_obligation_seconds": round(max(r["time"] for r in self.results), 2),
            "functions_under_contract": self.functions,
            "paths_explored": self.paths,
            "vacuity": {"canary_refuted": self.canary_res["status"] == "sat",
                        "exit_paths_checked": len(self.covers),
                        "exit_paths_satisfiable": sum(1 for c in self.cover_res if c == "sat"),
                        "exit_paths_unknown": sum(1 for c in self.cover_res if c == "unknown")},
            "samples": samples,
            "native_contract_evaluations": getattr(self, "native_evals", 0),
            "cross_solver": {"enabled": self.tier == "thorough",
                             "agreeing": sum(1 for r in self.results if "cross" in r and r["status"] == "unsat")},
            "undecided": [u["obligation"] for u in self.undecided],
            "functions_outside_fragment": self.outside,
            "trusted_contracts_used_not_verified": sorted(q for q, c in self.reg.contracts.items() if c.trusted),
            "externals_by_contract": sorted(self.reg.externals),
            "known_findings_reported": self.known_hits,
            "notes": self.notes,
            "phase_seconds": getattr(self, "phase", {}),
        }
        if extra_cov:
            cov.update(extra_cov)
        ev = {
            "property_id": self.prop,
            "tier": self.tier,
            "seed": self.seed,
            "level": "proof",
            "coverage": cov,
            "assumptions": BASE_ASSUMPTIONS + sorted(self.assumptions_used) + self.cfg.get("assumptions", []),
            "wall_s": round(time.time() - self.t0, 2),
            "violations": len(self.violations),
        }
        os.makedirs(os.path.join(VERIF, "evidence"), exist_ok=True)
        with open(os.path.join(VERIF, "evidence", f"{self.prop}.json"), "w") as f:
            json.dump(ev, f, indent=1, default=str)

    def run(self, write_evidence=True, label=None):
        try:
            self.phase = {}
            t = time.time()
            self.generate()
            self.phase["generate_s"] = round(time.time() - t, 2)
            t = time.time()
            self.discharge()
            self.phase["discharge_s"] = round(time.time() - t, 2)
            t = time.time()
            self.triage()
            self.bounded_standins()
            for q in getattr(self, "missing", []):
                print(f"MISSING function under contract is no longer in the source: {q}")
                self.undecided.append({"obligation": q + ":function-under-contract-missing", "solver_status": "n/a", "native_tried": 0})
            self.phase["triage_s"] = round(time.time() - t, 2)
            t = time.time()
            if not self.undecided:
                self.native_smoke()
            self.phase["native_smoke_s"] = round(time.time() - t, 2)
            t = time.time()
            if "extra" in self.cfg and not self.undecided:
                self.extra_cov = self.cfg["extra"](self)
            else:
                self.extra_cov = None
            self.phase["native_sweep_s"] = round(time.time() - t, 2)
        except Unsupported as e:
            print(f"CHECKER-ERROR property={self.prop} out-of-fragment: {e}")
            traceback.print_exc()
            return 3
        except Exception as e:
            print(f"CHECKER-ERROR property={self.prop} {e!r}")
            traceback.print_exc()
            return 3
        known = load_known(self.prop)
        real = []
        for v in self.violations:
            hit = None
            for e in known:
                if finding_matches(e, v["function"], v["native_input"]):
                    hit = e
                    break
            if hit is not None:
                line = f"KNOWN-FINDING: property={self.prop} {hit['what']}"
                if line not in self.known_hits:
                    self.known_hits.append(line)
            else:
                real.append(v)
        self.violations = real
        if write_evidence:
            self.evidence(self.extra_cov)
        for line in self.known_hits:
            print(line)
        discharged = sum(1 for r in self.results if r["status"] == "unsat")
        self.discharged = discharged
        print(f"{self.prop}{' [' + label + ']' if label else ''}: {len(self.obls)} obligations, {discharged} discharged, "
              f"{len(self.violations)} violated, {len(self.undecided)} undecided, "
              f"{len(self.functions)} functions/lemmas under contract, {round(time.time() - self.t0, 1)} s {self.phase}")
        if self.violations:
            # one VIOLATION line per failing function (first failing obligation of each)
            seen = set()
            n = 0
            for v in sorted(self.violations, key=lambda v: v["native_input"] is None):
                if v["function"] in seen:
                    continue
                seen.add(v["function"])
                path = self.write_replay(n, v)
                n += 1
                tail = "" if v["native_input"] is not None else " no-failing-input-found"
                print(f"  failed obligation {v['obligation']} [{v['solver_status']}] clause: {v['clause'] or v['why']}")
                if v["native_input"] is not None:
                    print(f"  failing input on the real code: {json.dumps(v['native_input'], default=str)[:400]} -> {v['native_detail']}")
                print(f"VIOLATION property={self.prop} replay={path}{tail}")
            return 1
        if self.undecided:
            for u in self.undecided:
                print(f"UNDECIDED obligation={u['obligation']} solver={u['solver_status']} "
                      f"(native search tried {u['native_tried']} inputs, no failure)")
            return 2
        return 0
