"""C09 - property-level lemmas over the EoWriter contracts (atomicity is the exc-frame obligations
of the method proofs themselves: a raising write leaves `data` unchanged)."""
from pyvc.api import lemma, requires, ensures, check
from eolib.data.eo_writer import EoWriter
from contracts.spec import CP_E


@lemma("C09")
def sanitised_string_has_no_break_byte(w: EoWriter, s: str, j: int):
    requires(w._string_sanitization_mode and 0 <= j and j < len(s))
    n0 = len(w.data)
    w.add_string(s)
    ensures(w.data[n0 + j] != 0xFF)
    ensures(CP_E(ord(s[j])) != 0xFF or w.data[n0 + j] == 0x79)      # each y-diaeresis becomes 'y'


@lemma("C09")
def sanitised_encoded_string_has_no_break_byte(w: EoWriter, s: str, j: int):
    requires(w._string_sanitization_mode and 0 <= j and j < len(s))
    n0 = len(w.data)
    w.add_encoded_string(s)
    ensures(w.data[n0 + j] != 0xFF)


@lemma("C09")
def sanitised_fixed_string_only_padding_is_break_byte(w: EoWriter, s: str, length: int, j: int):
    requires(w._string_sanitization_mode and 0 <= j and j < length and len(s) <= length)
    n0 = len(w.data)
    w.add_fixed_string(s, length, True)
    ensures(len(w.data) == n0 + length)
    ensures((w.data[n0 + j] == 0xFF) == (j >= len(s)))


@lemma("C09")
def unsanitised_string_is_exact_image(w: EoWriter, s: str, j: int):
    requires(not w._string_sanitization_mode and 0 <= j and j < len(s))
    n0 = len(w.data)
    w.add_string(s)
    ensures(w.data[n0 + j] == CP_E(ord(s[j])))


@lemma("C09")
def unsanitised_fixed_string_is_exact_image(w: EoWriter, s: str, j: int):
    requires(not w._string_sanitization_mode and 0 <= j and j < len(s))
    n0 = len(w.data)
    w.add_fixed_string(s, len(s), False)
    ensures(len(w.data) == n0 + len(s))
    ensures(w.data[n0 + j] == CP_E(ord(s[j])))


@lemma("C09")
def mode_toggles_take_effect_immediately(w: EoWriter, s: str, j: int):
    requires(0 <= j and j < len(s))
    w.string_sanitization_mode = True
    n0 = len(w.data)
    w.add_string(s)
    w.string_sanitization_mode = False
    w.add_string(s)
    ensures(w.data[n0 + j] != 0xFF)
    ensures(w.data[n0 + len(s) + j] == CP_E(ord(s[j])))
