"""C13 - the n-th sequence number equals start-in-force + (n mod 10) under any update history.
`served` is the ghost count of next_sequence calls so far; the inductive invariant is
_counter == served mod 10.  Base case, and one step per operation kind."""
from pyvc.api import lemma, requires, ensures, check
from eolib.packet.packet_sequencer import PacketSequencer
from eolib.packet.sequence_start import SequenceStart


@lemma("C13")
def base(start: SequenceStart):
    seq = PacketSequencer(start)
    ensures(seq._counter == 0 % 10)


@lemma("C13")
def step_next(seq: PacketSequencer, served: int):
    requires(served >= 0 and seq._counter == served % 10)
    in_force = seq._start.value
    r = seq.next_sequence()
    ensures(r == in_force + served % 10)              # the served-th number (counting from zero)
    ensures(seq._counter == (served + 1) % 10)        # invariant for served + 1
    ensures(seq._start.value == in_force)             # the start in force is untouched


@lemma("C13")
def step_update(seq: PacketSequencer, served: int, new_start: SequenceStart):
    requires(served >= 0 and seq._counter == served % 10)
    seq.set_sequence_start(new_start)
    ensures(seq._counter == served % 10)              # never resets, skips or repeats the counter
    ensures(seq._start.value == new_start.value)
    r = seq.next_sequence()
    ensures(r == new_start.value + served % 10)
