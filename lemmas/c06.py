"""C06 - chunk framing isolates chunks from over- and under-reads.  Lemmas over the contracts of
EoWriter (C09), EoReader (C05) and the number codec (C07):
 (1) no in-range integer encoding and no sanitised string contains the break byte;
 (2) the next break of a chunk is unique and is where the writer put it;
 (3) next_chunk is a function of (data, chunk start) only - whatever was read or over-read inside
     the chunk, the reader lands just past the chunk's break; surplus reads yield zeros / empty;
 (4) hence a chunk written after a break is read from the position the writer put it at.
Induction over the list of chunks: step = (2)+(3)+(4) (meta-step, DESIGN 1.4)."""
from pyvc.api import lemma, requires, ensures, check
from eolib.data.eo_writer import EoWriter
from eolib.data.eo_reader import EoReader
from contracts.spec import LIM, isNB, REM, CP_E, CP_D, SANB


@lemma("C06")
def int_encodings_never_contain_the_break_byte(w: EoWriter, v: int, k: int):
    requires(0 <= v and v < LIM(4) and 0 <= k and k < 4)
    n0 = len(w.data)
    w.add_int(v)
    ensures(w.data[n0 + k] != 0xFF)


@lemma("C06")
def three_short_char_encodings_never_contain_the_break_byte(w: EoWriter, a: int, b: int, c: int):
    requires(0 <= a and a < LIM(3) and 0 <= b and b < LIM(2) and 0 <= c and c < LIM(1))
    n0 = len(w.data)
    w.add_three(a)
    w.add_short(b)
    w.add_char(c)
    ensures(all(w.data[n0 + k] != 0xFF for k in range(6)))


@lemma("C06")
def sanitised_strings_never_contain_the_break_byte(w: EoWriter, s: str, k: int):
    requires(w.string_sanitization_mode and 0 <= k and k < len(s))
    n0 = len(w.data)
    w.add_string(s)
    ensures(w.data[n0 + k] != 0xFF)


@lemma("C06")
def next_break_is_unique(d: bytes, s: int, r1: int, r2: int):
    requires(isNB(d, s, r1) and isNB(d, s, r2))
    ensures(r1 == r2)


@lemma("C06")
def next_break_is_where_the_writer_put_it(d: bytes, s: int, n: int, r: int):
    """bytes [s, s+n) free of 0xFF, then a break (or the end): any reader's cached next break is s+n"""
    requires(0 <= s and 0 <= n and s + n <= len(d))
    requires(all(d[k] != 0xFF for k in range(s, s + n)))
    requires(s + n == len(d) or d[s + n] == 0xFF)
    requires(isNB(d, s, r))
    ensures(r == s + n)


@lemma("C06")
def next_chunk_ignores_how_the_chunk_was_consumed(r1: EoReader, r2: EoReader):
    """two readers over the same data in the same chunk, at arbitrary different positions (any
    under- or over-read plan), are in the same state after next_chunk"""
    requires(r1.chunked_reading_mode and r2.chunked_reading_mode)
    requires(len(r1._data) == len(r2._data) and all(r1._data[k] == r2._data[k] for k in range(len(r1._data))))
    requires(r1._chunk_start == r2._chunk_start)
    r1.next_chunk()
    r2.next_chunk()
    ensures(r1.position == r2.position)
    ensures(r1._chunk_start == r2._chunk_start and r1._next_break == r2._next_break)
    ensures(r1.remaining == r2.remaining)


@lemma("C06")
def reads_never_move_the_chunk(r: EoReader, n: int):
    """every typed read keeps the chunk start and the cached break, and never passes the break"""
    requires(r.chunked_reading_mode and 0 <= n)
    cs = r._chunk_start
    nb = r._next_break
    p0 = r.position
    requires(p0 <= nb)
    r.get_int()
    r.get_string()
    r.get_short()
    r.get_bytes(n)
    r.get_fixed_string(n, True)
    ensures(r._chunk_start == cs and r._next_break == nb)
    ensures(p0 <= r.position and r.position <= nb)


@lemma("C06")
def surplus_reads_yield_zero_and_empty(r: EoReader):
    requires(r.remaining == 0)
    p0 = r.position
    ensures(r.get_char() == 0)
    ensures(r.get_short() == 0)
    ensures(r.get_three() == 0)
    ensures(r.get_int() == 0)
    ensures(r.get_byte() == 0)
    ensures(len(r.get_string()) == 0)
    ensures(len(r.get_fixed_string(3, False)) == 0)
    ensures(len(r.get_encoded_string()) == 0)
    ensures(r.position == p0)


@lemma("C06")
def chunk_is_found_where_it_was_written(w: EoWriter, v: int, s: str, t: int, suffix: bytes, r: EoReader):
    """writer (sanitising) emits a chunk [int v][string s] and a break, then the next chunk starts
    with [short t].  A chunked reader whose current chunk is that first chunk - at ANY position in
    it - lands exactly on the second chunk after next_chunk and reads t."""
    requires(w.string_sanitization_mode and 0 <= v and v < LIM(4) and 0 <= t and t < LIM(2))
    n0 = len(w.data)
    w.add_int(v)
    w.add_string(s)
    w.add_byte(0xFF)
    n1 = len(w.data)
    w.add_short(t)
    w.add_byte(0xFF)
    out = w.to_bytearray() + suffix
    requires(r.chunked_reading_mode and r._chunk_start == n0)
    requires(len(r._data) == len(out) and all(r._data[k] == out[k] for k in range(len(out))))
    check(n1 == n0 + 4 + len(s) + 1)
    check(all(out[k] != 0xFF for k in range(n0, n1 - 1)))
    check(out[n1 - 1] == 0xFF)
    check(r._next_break == n1 - 1)
    r.next_chunk()
    ensures(r.position == n1)
    check(r._next_break == n1 + 2)
    ensures(r.get_short() == t)
    ensures(r.remaining == 0)
