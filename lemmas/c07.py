"""C07 - property-level lemmas over the contracts of encode_number / decode_number."""
from pyvc.api import lemma, requires, ensures, check
from eolib.data.number_encoding_utils import encode_number, decode_number
from contracts.spec import LIM, DEC


@lemma("C07")
def decode_inverts_encode(n: int):
    requires(0 <= n and n < LIM(4))
    e = encode_number(n)
    ensures(decode_number(e) == n)
    ensures(all(e[k] != 0x00 and e[k] != 0xFF for k in range(4)))


@lemma("C07")
def prefix_decodes_and_filler(n: int):
    """for n < 253^k the first k bytes alone decode to n and the rest is the 0xFE filler"""
    requires(0 <= n and n < LIM(4))
    e = encode_number(n)
    ensures(not n < LIM(1) or (decode_number(e[:1]) == n and e[1] == 0xFE and e[2] == 0xFE and e[3] == 0xFE))
    ensures(not n < LIM(2) or (decode_number(e[:2]) == n and e[2] == 0xFE and e[3] == 0xFE))
    ensures(not n < LIM(3) or (decode_number(e[:3]) == n and e[3] == 0xFE))


@lemma("C07")
def encode_is_injective(n: int, m: int):
    requires(0 <= n and n < LIM(4) and 0 <= m and m < LIM(4))
    a = encode_number(n)
    b = encode_number(m)
    requires(all(a[k] == b[k] for k in range(4)))
    ensures(n == m)


@lemma("C07")
def decode_is_the_positional_formula(b: bytes):
    ensures(decode_number(b) == DEC(b))
