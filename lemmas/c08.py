"""C08 - property-level lemmas over the contracts of encode_string / decode_string.  Each lemma is
a Python function verified by the engine like code: the calls below are the *real* functions,
replaced by their contracts (modular), for arbitrary `x` and position `i`."""
from pyvc.api import lemma, requires, ensures, check, ghost_copy
from eolib.data.string_encoding_utils import encode_string, decode_string


@lemma("C08")
def encode_shape(x: bytearray, i: int):
    requires(0 <= i and i < len(x))
    n = len(x)
    y = ghost_copy(x)
    encode_string(y)
    src = x[n - 1 - i]                      # byte order is reversed
    ensures(len(y) == n)
    ensures((0x22 <= src and src <= 0x7E) or y[i] == src)              # outside 0x22..0x7E untouched
    ensures((not (0x22 <= src and src <= 0x7E)) or (0x21 <= y[i] and y[i] <= 0x7D))
    ensures((y[i] == 0x00) == (src == 0x00))                           # never creates / destroys 0x00
    ensures((y[i] == 0xFF) == (src == 0xFF))                           # ... or the break byte


@lemma("C08")
def decode_shape(x: bytearray, i: int):
    requires(0 <= i and i < len(x))
    n = len(x)
    y = ghost_copy(x)
    decode_string(y)
    src = x[n - 1 - i]
    ensures(len(y) == n)
    ensures((0x22 <= src and src <= 0x7E) or y[i] == src)
    ensures((not (0x22 <= src and src <= 0x7E)) or (0x21 <= y[i] and y[i] <= 0x7D))
    ensures((y[i] == 0x00) == (src == 0x00))
    ensures((y[i] == 0xFF) == (src == 0xFF))


@lemma("C08")
def encode_then_decode(x: bytearray, i: int):
    requires(0 <= i and i < len(x))
    y = ghost_copy(x)
    encode_string(y)
    decode_string(y)
    ensures(len(y) == len(x))
    ensures(x[i] == 0x7E or y[i] == x[i])


@lemma("C08")
def decode_then_encode(x: bytearray, i: int):
    requires(0 <= i and i < len(x))
    y = ghost_copy(x)
    decode_string(y)
    encode_string(y)
    ensures(len(y) == len(x))
    ensures(x[i] == 0x7E or y[i] == x[i])
