"""C10 - property-level lemmas over the contracts of the four encryption primitives."""
from pyvc.api import lemma, requires, ensures, check, ghost_copy, trigger
from eolib.encrypt.encryption_utils import interleave, deinterleave, flip_msb, swap_multiples
from contracts.spec import srcI, srcD, FLIP, M, Run


@lemma("C10")
def position_maps_are_inverse_permutations(n: int, k: int):
    requires(0 <= k and k < n)
    ensures(0 <= srcI(n, k) and srcI(n, k) < n)
    ensures(0 <= srcD(n, k) and srcD(n, k) < n)
    ensures(srcI(n, srcD(n, k)) == k)
    ensures(srcD(n, srcI(n, k)) == k)


@lemma("C10")
def deinterleave_undoes_interleave(x: bytearray, k: int):
    requires(0 <= k and k < len(x))
    y = ghost_copy(x)
    interleave(y)
    deinterleave(y)
    ensures(len(y) == len(x))
    ensures(y[k] == x[k])


@lemma("C10")
def interleave_undoes_deinterleave(x: bytearray, k: int):
    requires(0 <= k and k < len(x))
    y = ghost_copy(x)
    deinterleave(y)
    interleave(y)
    ensures(len(y) == len(x))
    ensures(y[k] == x[k])


@lemma("C10")
def flip_msb_is_an_involution_fixing_0_and_128(x: bytearray, k: int):
    requires(0 <= k and k < len(x))
    y = ghost_copy(x)
    flip_msb(y)
    ensures(len(y) == len(x))
    ensures((x[k] != 0 and x[k] != 128) or y[k] == x[k])
    ensures((x[k] == 0 or x[k] == 128) or (y[k] != x[k] and y[k] % 128 == x[k] % 128))
    flip_msb(y)
    ensures(y[k] == x[k])


@lemma("C10")
def swap_multiples_zero_is_identity(x: bytearray, k: int):
    requires(0 <= k and k < len(x))
    y = ghost_copy(x)
    swap_multiples(y, 0)
    ensures(len(y) == len(x) and y[k] == x[k])


@lemma("C10")
def swap_multiples_is_an_involution(x: bytearray, m: int, j: int):
    requires(m > 0 and 0 <= j and j < len(x))
    y = ghost_copy(x)
    swap_multiples(y, m)
    z = ghost_copy(y)
    swap_multiples(z, m)
    ensures(len(y) == len(x) and len(z) == len(x))
    ensures(M(x[j], m) or y[j] == x[j])                  # position of every non-multiple is kept
    if x[j] % m == 0:
        a = j
        while a > 0 and x[a - 1] % m == 0:
            a -= 1
        b = j + 1
        while b < len(x) and x[b] % m == 0:
            b += 1
        check(Run(x, m, a, b))
        check(Run(y, m, a, b))
        # the position map inside a run is the reflection j -> a+b-1-j: an involution of [a, b)
        check(a <= a + b - 1 - j and a + b - 1 - j < b)
        trigger(a, b, a + b - 1 - j)         # proof hint: instantiate the run clause of both calls here
        trigger(a, b, j)
        check(y[a + b - 1 - j] == x[j])
    ensures(z[j] == x[j])


class swap_multiples_is_an_involution_loops:
    def inv_0(x, m, j, a):
        return [0 <= a, a <= j, all(M(x[k], m) for k in range(a, j + 1))]

    def variant_0(a):
        return a

    def inv_1(x, m, j, a, b):
        return [j < b, b <= len(x), 0 <= a, a <= j, all(M(x[k], m) for k in range(a, b)),
                a == 0 or not M(x[a - 1], m)]

    def variant_1(x, b):
        return len(x) - b
