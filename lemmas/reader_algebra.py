"""The abstract reader of E2 (pyvc.gen.Vocab: uninterpreted state transformers SKIP / SETCH / NEXT with
the facts contracts.spec.RA_*) is sound for the real EoReader: every real method, replaced by its C05
contract, satisfies the fact E2 asserts of the corresponding transformer, from ANY state satisfying the
class invariant.  The same RA_* texts are what Vocab evaluates symbolically."""
from pyvc.api import lemma, requires, ensures
from eolib.data.eo_reader import EoReader
from contracts.spec import RA_STATE, RA_SKIP, RA_SETCH, RA_NEXT


@lemma("RA")
def every_state_satisfies_the_state_fact(r: EoReader):
    ensures(RA_STATE(r.chunked_reading_mode, r.remaining, len(r._data) - r.position, len(r._data) - r._chunk_start))


@lemma("RA")
def get_bytes_is_a_skip(r: EoReader, n: int):
    requires(0 <= n)
    ch, pos, rem, tot, csr = r.chunked_reading_mode, r.position, r.remaining, len(r._data) - r.position, len(r._data) - r._chunk_start
    r.get_bytes(n)
    ensures(RA_SKIP(n, ch, pos, rem, tot, csr, r.chunked_reading_mode, r.position, r.remaining,
                    len(r._data) - r.position, len(r._data) - r._chunk_start))


@lemma("RA")
def get_byte_is_a_skip_of_1(r: EoReader):
    ch, pos, rem, tot, csr = r.chunked_reading_mode, r.position, r.remaining, len(r._data) - r.position, len(r._data) - r._chunk_start
    r.get_byte()
    ensures(RA_SKIP(1, ch, pos, rem, tot, csr, r.chunked_reading_mode, r.position, r.remaining,
                    len(r._data) - r.position, len(r._data) - r._chunk_start))


@lemma("RA")
def get_char_is_a_skip_of_1(r: EoReader):
    ch, pos, rem, tot, csr = r.chunked_reading_mode, r.position, r.remaining, len(r._data) - r.position, len(r._data) - r._chunk_start
    r.get_char()
    ensures(RA_SKIP(1, ch, pos, rem, tot, csr, r.chunked_reading_mode, r.position, r.remaining,
                    len(r._data) - r.position, len(r._data) - r._chunk_start))


@lemma("RA")
def get_short_is_a_skip_of_2(r: EoReader):
    ch, pos, rem, tot, csr = r.chunked_reading_mode, r.position, r.remaining, len(r._data) - r.position, len(r._data) - r._chunk_start
    r.get_short()
    ensures(RA_SKIP(2, ch, pos, rem, tot, csr, r.chunked_reading_mode, r.position, r.remaining,
                    len(r._data) - r.position, len(r._data) - r._chunk_start))


@lemma("RA")
def get_three_is_a_skip_of_3(r: EoReader):
    ch, pos, rem, tot, csr = r.chunked_reading_mode, r.position, r.remaining, len(r._data) - r.position, len(r._data) - r._chunk_start
    r.get_three()
    ensures(RA_SKIP(3, ch, pos, rem, tot, csr, r.chunked_reading_mode, r.position, r.remaining,
                    len(r._data) - r.position, len(r._data) - r._chunk_start))


@lemma("RA")
def get_int_is_a_skip_of_4(r: EoReader):
    ch, pos, rem, tot, csr = r.chunked_reading_mode, r.position, r.remaining, len(r._data) - r.position, len(r._data) - r._chunk_start
    r.get_int()
    ensures(RA_SKIP(4, ch, pos, rem, tot, csr, r.chunked_reading_mode, r.position, r.remaining,
                    len(r._data) - r.position, len(r._data) - r._chunk_start))


@lemma("RA")
def get_string_is_a_skip_of_everything_remaining(r: EoReader):
    ch, pos, rem, tot, csr = r.chunked_reading_mode, r.position, r.remaining, len(r._data) - r.position, len(r._data) - r._chunk_start
    r.get_string()
    ensures(RA_SKIP(rem, ch, pos, rem, tot, csr, r.chunked_reading_mode, r.position, r.remaining,
                    len(r._data) - r.position, len(r._data) - r._chunk_start))


@lemma("RA")
def get_encoded_string_is_a_skip_of_everything_remaining(r: EoReader):
    ch, pos, rem, tot, csr = r.chunked_reading_mode, r.position, r.remaining, len(r._data) - r.position, len(r._data) - r._chunk_start
    r.get_encoded_string()
    ensures(RA_SKIP(rem, ch, pos, rem, tot, csr, r.chunked_reading_mode, r.position, r.remaining,
                    len(r._data) - r.position, len(r._data) - r._chunk_start))


@lemma("RA")
def get_fixed_string_is_a_skip(r: EoReader, n: int, padded: bool):
    requires(0 <= n)
    ch, pos, rem, tot, csr = r.chunked_reading_mode, r.position, r.remaining, len(r._data) - r.position, len(r._data) - r._chunk_start
    r.get_fixed_string(n, padded)
    ensures(RA_SKIP(n, ch, pos, rem, tot, csr, r.chunked_reading_mode, r.position, r.remaining,
                    len(r._data) - r.position, len(r._data) - r._chunk_start))


@lemma("RA")
def get_fixed_encoded_string_is_a_skip(r: EoReader, n: int, padded: bool):
    requires(0 <= n)
    ch, pos, rem, tot, csr = r.chunked_reading_mode, r.position, r.remaining, len(r._data) - r.position, len(r._data) - r._chunk_start
    r.get_fixed_encoded_string(n, padded)
    ensures(RA_SKIP(n, ch, pos, rem, tot, csr, r.chunked_reading_mode, r.position, r.remaining,
                    len(r._data) - r.position, len(r._data) - r._chunk_start))


@lemma("RA")
def the_mode_setter_is_a_setch(r: EoReader, b: bool):
    ch, pos, rem, tot, csr = r.chunked_reading_mode, r.position, r.remaining, len(r._data) - r.position, len(r._data) - r._chunk_start
    r.chunked_reading_mode = b
    ensures(RA_SETCH(b, ch, pos, rem, tot, csr, r.chunked_reading_mode, r.position, r.remaining,
                     len(r._data) - r.position, len(r._data) - r._chunk_start))


@lemma("RA")
def next_chunk_is_a_next(r: EoReader):
    requires(r.chunked_reading_mode)
    ch, pos, rem, tot, csr = r.chunked_reading_mode, r.position, r.remaining, len(r._data) - r.position, len(r._data) - r._chunk_start
    r.next_chunk()
    ensures(RA_NEXT(ch, pos, rem, tot, csr, r.chunked_reading_mode, r.position, r.remaining,
                    len(r._data) - r.position, len(r._data) - r._chunk_start))
