"""C04 - writer -> reader round trip, one lemma per primitive pair, each in frame form:
for ANY writer contents before the write (w is arbitrary) and ANY bytes after it (suffix), a
non-chunked reader positioned at the start of the piece returns the written value and stops exactly
at the end of the piece.  The post-position of one pair is the pre-position of the next, so a
sequence of n writes/reads is an induction on n whose step is these lemmas (meta-step, DESIGN 1.4).
The calls are the real EoWriter / EoReader methods, replaced by their contracts."""
from pyvc.api import lemma, requires, ensures, check
from eolib.data.eo_writer import EoWriter
from eolib.data.eo_reader import EoReader
from contracts.spec import LIM, CP_E, CP_D, SANB


@lemma("C04")
def rt_byte(w: EoWriter, v: int, suffix: bytes):
    requires(0 <= v and v <= 255)
    n0 = len(w.data)
    w.add_byte(v)
    r = EoReader(w.to_bytearray() + suffix)
    r.get_bytes(n0)
    check(r.position == n0)
    x = r.get_byte()
    ensures(x == v)
    ensures(r.position == n0 + 1)


@lemma("C04")
def rt_bytes(w: EoWriter, b: bytes, suffix: bytes, j: int):
    requires(0 <= j and j < len(b))
    n0 = len(w.data)
    w.add_bytes(b)
    r = EoReader(w.to_bytearray() + suffix)
    r.get_bytes(n0)
    x = r.get_bytes(len(b))
    ensures(len(x) == len(b))
    ensures(x[j] == b[j])
    ensures(r.position == n0 + len(b))


@lemma("C04")
def rt_char(w: EoWriter, v: int, suffix: bytes):
    requires(0 <= v and v < LIM(1))
    n0 = len(w.data)
    w.add_char(v)
    r = EoReader(w.to_bytearray() + suffix)
    r.get_bytes(n0)
    x = r.get_char()
    ensures(x == v)
    ensures(r.position == n0 + 1)


@lemma("C04")
def rt_short(w: EoWriter, v: int, suffix: bytes):
    requires(0 <= v and v < LIM(2))
    n0 = len(w.data)
    w.add_short(v)
    r = EoReader(w.to_bytearray() + suffix)
    r.get_bytes(n0)
    x = r.get_short()
    ensures(x == v)
    ensures(r.position == n0 + 2)


@lemma("C04")
def rt_three(w: EoWriter, v: int, suffix: bytes):
    requires(0 <= v and v < LIM(3))
    n0 = len(w.data)
    w.add_three(v)
    r = EoReader(w.to_bytearray() + suffix)
    r.get_bytes(n0)
    x = r.get_three()
    ensures(x == v)
    ensures(r.position == n0 + 3)


@lemma("C04")
def rt_int(w: EoWriter, v: int, suffix: bytes):
    requires(0 <= v and v < LIM(4))
    n0 = len(w.data)
    w.add_int(v)
    r = EoReader(w.to_bytearray() + suffix)
    r.get_bytes(n0)
    x = r.get_int()
    ensures(x == v)
    ensures(r.position == n0 + 4)


@lemma("C04")
def rt_string_trailing(w: EoWriter, s: str, j: int):
    """a trailing string: read to the end of the data"""
    requires(0 <= j and j < len(s))
    n0 = len(w.data)
    san = w.string_sanitization_mode
    w.add_string(s)
    r = EoReader(w.to_bytearray())
    r.get_bytes(n0)
    x = r.get_string()
    ensures(len(x) == len(s))
    ensures(ord(x[j]) == CP_D(SANB(CP_E(ord(s[j])), san)))       # the cp1252 image, nothing else changes
    ensures(r.position == n0 + len(s) and r.remaining == 0)


@lemma("C04")
def rt_fixed_string(w: EoWriter, s: str, suffix: bytes, j: int):
    requires(0 <= j and j < len(s))
    n0 = len(w.data)
    san = w.string_sanitization_mode
    w.add_fixed_string(s, len(s), False)
    r = EoReader(w.to_bytearray() + suffix)
    r.get_bytes(n0)
    x = r.get_fixed_string(len(s), False)
    ensures(len(x) == len(s))
    ensures(ord(x[j]) == CP_D(SANB(CP_E(ord(s[j])), san)))
    ensures(r.position == n0 + len(s))


@lemma("C04")
def rt_padded_string(w: EoWriter, s: str, length: int, suffix: bytes, j: int):
    """excluded by the format itself: a character whose byte is 0xFF inside a padded string"""
    requires(len(s) <= length and 0 <= j and j < len(s))
    san = w.string_sanitization_mode
    requires(all(SANB(CP_E(ord(s[k])), san) != 0xFF for k in range(len(s))))
    n0 = len(w.data)
    w.add_fixed_string(s, length, True)
    r = EoReader(w.to_bytearray() + suffix)
    r.get_bytes(n0)
    x = r.get_fixed_string(length, True)
    ensures(len(x) == len(s))
    ensures(ord(x[j]) == CP_D(SANB(CP_E(ord(s[j])), san)))
    ensures(r.position == n0 + length)


@lemma("C04")
def rt_encoded_string_trailing(w: EoWriter, s: str, j: int):
    """excluded by the format itself: '~' (0x7E) inside an encoded string"""
    requires(0 <= j and j < len(s))
    san = w.string_sanitization_mode
    requires(all(SANB(CP_E(ord(s[k])), san) != 0x7E for k in range(len(s))))
    n0 = len(w.data)
    w.add_encoded_string(s)
    r = EoReader(w.to_bytearray())
    r.get_bytes(n0)
    x = r.get_encoded_string()
    ensures(len(x) == len(s))
    ensures(ord(x[j]) == CP_D(SANB(CP_E(ord(s[j])), san)))
    ensures(r.position == n0 + len(s) and r.remaining == 0)


@lemma("C04")
def rt_fixed_encoded_string(w: EoWriter, s: str, suffix: bytes, j: int):
    requires(0 <= j and j < len(s))
    san = w.string_sanitization_mode
    requires(all(SANB(CP_E(ord(s[k])), san) != 0x7E for k in range(len(s))))
    n0 = len(w.data)
    w.add_fixed_encoded_string(s, len(s), False)
    r = EoReader(w.to_bytearray() + suffix)
    r.get_bytes(n0)
    x = r.get_fixed_encoded_string(len(s), False)
    ensures(len(x) == len(s))
    ensures(ord(x[j]) == CP_D(SANB(CP_E(ord(s[j])), san)))
    ensures(r.position == n0 + len(s))


@lemma("C04")
def rt_padded_encoded_string(w: EoWriter, s: str, length: int, suffix: bytes, j: int):
    requires(len(s) <= length and 0 <= j and j < len(s))
    san = w.string_sanitization_mode
    requires(all(SANB(CP_E(ord(s[k])), san) != 0x7E and SANB(CP_E(ord(s[k])), san) != 0xFF for k in range(len(s))))
    n0 = len(w.data)
    w.add_fixed_encoded_string(s, length, True)
    r = EoReader(w.to_bytearray() + suffix)
    r.get_bytes(n0)
    x = r.get_fixed_encoded_string(length, True)
    ensures(len(x) == len(s))
    ensures(ord(x[j]) == CP_D(SANB(CP_E(ord(s[j])), san)))
    ensures(r.position == n0 + length)
