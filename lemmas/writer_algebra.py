"""The abstract writer of E2 (pyvc.gen.GenExec.writer_call: `data' = data ++ piece`, the piece an
uninterpreted function ENC / SB / ES / PAD of the arguments and the sanitisation mode, refusals given by
contracts.spec.WA_*) is sound for the real EoWriter: every adding method, replaced by its C09 contract,
  (frame)   keeps every byte written before and the sanitisation mode,
  (length)  appends exactly the number of bytes E2 assumes,
  (piece)   appends bytes that are a function of its arguments and the mode only - two writers in
            arbitrary different states append the same bytes,
  (refusal) raises ValueError exactly when WA_* says so, appending nothing.
`data' = data ++ F(args, mode)` over sequences is (frame)+(length)+(piece) over arrays."""
from pyvc.api import lemma, requires, ensures, ghost_copy
from eolib.data.eo_writer import EoWriter
from contracts.spec import WA_INT_RAISES, WA_FIXED_RAISES


@lemma("WA")
def add_byte_piece(w1: EoWriter, w2: EoWriter, v: int, j: int):
    requires(0 <= v and not WA_INT_RAISES(0, v))
    n1, n2, old, m = len(w1.data), len(w2.data), ghost_copy(w1.data), w1.string_sanitization_mode
    requires(0 <= j and j < n1)
    w1.add_byte(v)
    w2.add_byte(v)
    ensures(len(w1.data) == n1 + 1 and w1.data[j] == old[j] and w1.string_sanitization_mode == m)
    ensures(w1.data[n1] == w2.data[n2])


@lemma("WA")
def add_char_piece(w1: EoWriter, w2: EoWriter, v: int, j: int):
    requires(0 <= v and not WA_INT_RAISES(1, v))
    n1, n2, old, m = len(w1.data), len(w2.data), ghost_copy(w1.data), w1.string_sanitization_mode
    requires(0 <= j and j < n1)
    w1.add_char(v)
    w2.add_char(v)
    ensures(len(w1.data) == n1 + 1 and w1.data[j] == old[j] and w1.string_sanitization_mode == m)
    ensures(w1.data[n1] == w2.data[n2])


@lemma("WA")
def add_short_piece(w1: EoWriter, w2: EoWriter, v: int, j: int, k: int):
    requires(0 <= v and not WA_INT_RAISES(2, v))
    n1, n2, old, m = len(w1.data), len(w2.data), ghost_copy(w1.data), w1.string_sanitization_mode
    requires(0 <= j and j < n1 and 0 <= k and k < 2)
    w1.add_short(v)
    w2.add_short(v)
    ensures(len(w1.data) == n1 + 2 and w1.data[j] == old[j] and w1.string_sanitization_mode == m)
    ensures(w1.data[n1 + k] == w2.data[n2 + k])


@lemma("WA")
def add_three_piece(w1: EoWriter, w2: EoWriter, v: int, j: int, k: int):
    requires(0 <= v and not WA_INT_RAISES(3, v))
    n1, n2, old, m = len(w1.data), len(w2.data), ghost_copy(w1.data), w1.string_sanitization_mode
    requires(0 <= j and j < n1 and 0 <= k and k < 3)
    w1.add_three(v)
    w2.add_three(v)
    ensures(len(w1.data) == n1 + 3 and w1.data[j] == old[j] and w1.string_sanitization_mode == m)
    ensures(w1.data[n1 + k] == w2.data[n2 + k])


@lemma("WA")
def add_int_piece(w1: EoWriter, w2: EoWriter, v: int, j: int, k: int):
    requires(0 <= v and not WA_INT_RAISES(4, v))
    n1, n2, old, m = len(w1.data), len(w2.data), ghost_copy(w1.data), w1.string_sanitization_mode
    requires(0 <= j and j < n1 and 0 <= k and k < 4)
    w1.add_int(v)
    w2.add_int(v)
    ensures(len(w1.data) == n1 + 4 and w1.data[j] == old[j] and w1.string_sanitization_mode == m)
    ensures(w1.data[n1 + k] == w2.data[n2 + k])


@lemma("WA")
def add_bytes_piece(w1: EoWriter, b: bytes, j: int, k: int):
    n1, old, m = len(w1.data), ghost_copy(w1.data), w1.string_sanitization_mode
    requires(0 <= j and j < n1 and 0 <= k and k < len(b))
    w1.add_bytes(b)
    ensures(len(w1.data) == n1 + len(b) and w1.data[j] == old[j] and w1.string_sanitization_mode == m)
    ensures(w1.data[n1 + k] == b[k])


@lemma("WA")
def add_string_piece(w1: EoWriter, w2: EoWriter, s: str, j: int, k: int):
    requires(w1.string_sanitization_mode == w2.string_sanitization_mode)
    n1, n2, old, m = len(w1.data), len(w2.data), ghost_copy(w1.data), w1.string_sanitization_mode
    requires(0 <= j and j < n1 and 0 <= k and k < len(s))
    w1.add_string(s)
    w2.add_string(s)
    ensures(len(w1.data) == n1 + len(s) and w1.data[j] == old[j] and w1.string_sanitization_mode == m)
    ensures(w1.data[n1 + k] == w2.data[n2 + k])


@lemma("WA")
def add_encoded_string_piece(w1: EoWriter, w2: EoWriter, s: str, j: int, k: int):
    requires(w1.string_sanitization_mode == w2.string_sanitization_mode)
    n1, n2, old, m = len(w1.data), len(w2.data), ghost_copy(w1.data), w1.string_sanitization_mode
    requires(0 <= j and j < n1 and 0 <= k and k < len(s))
    w1.add_encoded_string(s)
    w2.add_encoded_string(s)
    ensures(len(w1.data) == n1 + len(s) and w1.data[j] == old[j] and w1.string_sanitization_mode == m)
    ensures(w1.data[n1 + k] == w2.data[n2 + k])


@lemma("WA")
def add_fixed_string_piece(w1: EoWriter, w2: EoWriter, w3: EoWriter, s: str, n: int, padded: bool, j: int, k: int):
    """the padded piece is the add_string piece followed by n - len(s) bytes 0xFF (SB(s) ++ PAD(n - len(s)))"""
    requires(w1.string_sanitization_mode == w2.string_sanitization_mode
             and w1.string_sanitization_mode == w3.string_sanitization_mode)
    requires(not WA_FIXED_RAISES(len(s), n, padded))
    n1, n2, n3, old, m = len(w1.data), len(w2.data), len(w3.data), ghost_copy(w1.data), w1.string_sanitization_mode
    requires(0 <= j and j < n1 and 0 <= k and k < n)
    w1.add_fixed_string(s, n, padded)
    w2.add_fixed_string(s, n, padded)
    w3.add_string(s)
    ensures(len(w1.data) == n1 + n and w1.data[j] == old[j] and w1.string_sanitization_mode == m)
    ensures(w1.data[n1 + k] == w2.data[n2 + k])
    ensures(w1.data[n1 + k] == (w3.data[n3 + k] if k < len(s) else 0xFF))


@lemma("WA")
def add_fixed_encoded_string_piece(w1: EoWriter, w2: EoWriter, s: str, n: int, padded: bool, j: int, k: int):
    requires(w1.string_sanitization_mode == w2.string_sanitization_mode)
    requires(not WA_FIXED_RAISES(len(s), n, padded))
    n1, n2, old, m = len(w1.data), len(w2.data), ghost_copy(w1.data), w1.string_sanitization_mode
    requires(0 <= j and j < n1 and 0 <= k and k < n)
    w1.add_fixed_encoded_string(s, n, padded)
    w2.add_fixed_encoded_string(s, n, padded)
    ensures(len(w1.data) == n1 + n and w1.data[j] == old[j] and w1.string_sanitization_mode == m)
    ensures(w1.data[n1 + k] == w2.data[n2 + k])


@lemma("WA")
def integer_refusals(w: EoWriter, v: int, width: int):
    requires(0 <= v and 0 <= width and width <= 4)
    n0 = len(w.data)
    raised = False
    try:
        if width == 0:
            w.add_byte(v)
        elif width == 1:
            w.add_char(v)
        elif width == 2:
            w.add_short(v)
        elif width == 3:
            w.add_three(v)
        else:
            w.add_int(v)
    except ValueError:
        raised = True
    ensures(raised == WA_INT_RAISES(width, v))
    ensures((not raised) or len(w.data) == n0)


@lemma("WA")
def fixed_string_refusals(w: EoWriter, s: str, n: int, padded: bool, encoded: bool):
    n0 = len(w.data)
    raised = False
    try:
        if encoded:
            w.add_fixed_encoded_string(s, n, padded)
        else:
            w.add_fixed_string(s, n, padded)
    except ValueError:
        raised = True
    ensures(raised == WA_FIXED_RAISES(len(s), n, padded))
    ensures((not raised) or len(w.data) == n0)
