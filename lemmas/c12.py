"""C12 - what the peer does on receipt reproduces the generated start value."""
from pyvc.api import lemma, requires, ensures, check
from eolib.packet.sequence_start import AccountReplySequenceStart, InitSequenceStart, PingSequenceStart


@lemma("C12")
def init_roundtrip():
    g = InitSequenceStart.generate()
    r = InitSequenceStart.from_init_values(g.seq1, g.seq2)
    ensures(r.value == g.value)
    ensures(0 <= g.seq1 and g.seq1 <= 252 and 0 <= g.seq2 and g.seq2 <= 252)


@lemma("C12")
def ping_roundtrip():
    g = PingSequenceStart.generate()
    r = PingSequenceStart.from_ping_values(g.seq1, g.seq2)
    ensures(r.value == g.value)
    ensures(0 <= g.seq1 and g.seq1 < 253 * 253 and 0 <= g.seq2 and g.seq2 < 253)


@lemma("C12")
def account_reply_roundtrip():
    g = AccountReplySequenceStart.generate()
    r = AccountReplySequenceStart.from_value(g.value)
    ensures(r.value == g.value)
    ensures(0 <= g.value and g.value < 253)
